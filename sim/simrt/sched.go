// Package simrt is the deterministic scheduler of the slog-agent simulator.
//
// One simulated run executes inside a testing/synctest bubble (fake clock, quiescence detection).
// Every goroutine of the system under test and of the harness is registered here; at every yield
// point it parks on a private channel. The bubble's root goroutine waits for quiescence
// (synctest.Wait), then releases exactly one parked goroutine chosen by the decision stream. A
// goroutine woken by the running one (channel hand-off, close, timer) runs only up to the post-block
// yield that directly follows every blocking operation, where it touches no shared state.
package simrt

import (
	"fmt"
	"hash/fnv"
	"os"
	"runtime"
	"runtime/debug"
	"sort"
	"strings"
	"sync"
	"sync/atomic"
	"testing"
	"testing/synctest"
	"time"
)

type gstate int32

const (
	gParked gstate = iota
	gRunning
	gBlocked
	gExited
)

func (s gstate) String() string {
	return [...]string{"parked", "running", "blocked", "exited"}[s]
}

// G is a registered goroutine
type G struct {
	kill     chan struct{} // closed at the end of the run: the goroutine leaves whatever it is blocked in and exits (deferred calls run, one goroutine at a time)
	ID       int
	Name     string
	Gen      int // generation tag; 0 = harness
	ChildGen int // generation tag given to children
	state    gstate
	site     string
	wake     chan struct{}
	frozen   bool
	stallTo  time.Time
	sched    *Sched
}

// Crash describes an uncaught panic (or Fatal exit) in a registered goroutine
type Crash struct {
	G     string
	Gen   int
	Value string
	Stack string
	Fatal bool
}

// TopFrame returns the first stack frame function whose name contains one of the given substrings
func (c *Crash) TopFrame(substrs ...string) string {
	for _, ln := range strings.Split(c.Stack, "\n") {
		if strings.HasPrefix(ln, "\t") || strings.HasPrefix(ln, "goroutine ") || ln == "" {
			continue
		}
		if strings.Contains(ln, "simrt.") || strings.HasPrefix(ln, "runtime") || strings.HasPrefix(ln, "panic(") {
			continue
		}
		for _, s := range substrs {
			if strings.Contains(ln, s) {
				if i := strings.LastIndexByte(ln, '('); i > 0 {
					ln = ln[:i]
				}
				return ln
			}
		}
	}
	return ""
}

// Config configures one run
type Config struct {
	FineYields bool // every instrumented function entry is a preemption point as well (much longer runs; used in a fraction of them)
	Seed       uint64
	Replay     []uint32 // if non-nil, decisions are replayed (0 when exhausted)
	ReplayMode bool
	MaxSteps   int
	MaxSimTime time.Duration
	Stickiness int  // 0..100: probability (%) to keep running the current goroutine at a yield
	LogEvents  bool // keep full event log (determinism self-test / replay traces)
	YieldStall int  // 0..1000: probability (per mille) that a goroutine of the system under test is held at a scheduling point for 1-5 ms of simulated time (a descheduled thread); at most maxYieldStalls per run
	SpawnStall int  // 0..100: probability (%) that a goroutine started by the system under test begins late (a slow or stalled task: legal in Go, nothing says when a new goroutine first runs)
}

// Result is the outcome of one run
type Result struct {
	Steps        int
	Switches     int
	SimTime      time.Duration
	Decisions    []uint32
	Crash        *Crash
	Stuck        bool   // nothing runnable and no timer pending before driver finished
	StuckInfo    string // blocked sites
	CapHit       string // "steps" or "simtime" if a cap ended the run
	HarnessError string // simulator invariant broken (exit 2 class)
	InterleaveH  uint64 // hash of context-switch sequence (goroutine name, site)
	EventH       uint64 // hash of all scheduling steps
	Events       []string
	Goroutines   int
	YieldStalls  int // scheduling points at which a goroutine of the system under test was held for a while (Config.YieldStall)
	SpawnStalls  int // goroutines of the system under test whose start was delayed (Config.SpawnStall)
	TimerTies    int // simultaneous timer expiries in one select that the simulator had to order itself
}

// Sched is the scheduler of one run
type Sched struct {
	mu          sync.Mutex
	gs          []*G
	cur         *G
	notify      chan struct{}
	dec         *Decisions
	cfg         Config
	steps       int
	switches    int
	stop        bool
	nowSkew     int64         // nanoseconds added to the readings of NowUnique so far
	wallStep    time.Duration // sum of the injected wall-clock steps
	lastNowG    int           // goroutine of the last NowUnique reading
	dead        bool          // teardown has begun: every instrumented operation exits its goroutine
	crash       *Crash
	lastRun     *G
	start       time.Time
	ih, eh      uint64
	events      []string
	herr        string
	onCrash     func(*Crash)
	driver      *G
	nextID      int
	scratch     []*G
	simTime     time.Duration
	stash       map[uintptr]stashed // timer values drained by breakTimerTie, keyed by channel
	timerTies   int
	spawnStalls int
	yieldStalls int
	capHit      string
	stuck       string
}

var schedDebug = os.Getenv("VERIF_SCHED_DEBUG") != ""

var active atomic.Pointer[Sched]

// Active reports whether a simulation is running
func Active() bool { return active.Load() != nil }

func current() *G {
	s := active.Load()
	if s == nil {
		return nil
	}
	return s.cur
}

// Current returns the running registered goroutine (nil outside simulation)
func Current() *G { return current() }

// Now returns the simulated time elapsed since the run started
func Now() time.Duration {
	s := active.Load()
	if s == nil {
		return 0
	}
	return time.Since(s.start)
}

// Steps returns the scheduler step counter, used as global event sequence number
func Steps() int {
	s := active.Load()
	if s == nil {
		return 0
	}
	return s.steps
}

func mix(h uint64, s string) uint64 {
	f := fnv.New64a()
	var b [8]byte
	for i := 0; i < 8; i++ {
		b[i] = byte(h >> (8 * i))
	}
	f.Write(b[:])
	f.Write([]byte(s))
	return f.Sum64()
}

// Run executes driver inside a fresh bubble under the deterministic scheduler
func Run(t *testing.T, cfg Config, driver func()) (res Result) {
	if cfg.MaxSteps == 0 {
		cfg.MaxSteps = 2_000_000
	}
	if cfg.MaxSimTime == 0 {
		cfg.MaxSimTime = 48 * time.Hour
	}
	s := &Sched{cfg: cfg, notify: make(chan struct{}, 1)}
	fine = cfg.FineYields
	defer func() { fine = false }()
	s.dec = newDecisions(cfg.Seed, cfg.Replay, cfg.ReplayMode)
	defer func() {
		active.Store(nil)
		if r := recover(); r != nil {
			msg := fmt.Sprint(r)
			if !strings.Contains(msg, "blocked goroutines remain") {
				res.HarnessError = "panic around bubble: " + msg + "\n" + string(debug.Stack())
			}
		}
		s.fill(&res)
	}()
	synctest.Test(t, func(t *testing.T) {
		s.notify = make(chan struct{}, 1)
		s.start = time.Now()
		active.Store(s)
		s.driver = s.spawn(nil, "driver", driver, false)
		s.loop()
		s.teardown()
	})
	return
}

func (s *Sched) fill(res *Result) {
	s.mu.Lock()
	defer s.mu.Unlock()
	res.Steps = s.steps
	res.Switches = s.switches
	res.Decisions = s.dec.rec
	res.Crash = s.crash
	res.InterleaveH = s.ih
	res.EventH = s.eh
	res.Events = s.events
	res.Goroutines = s.nextID
	res.TimerTies = s.timerTies
	res.SpawnStalls = s.spawnStalls
	res.YieldStalls = s.yieldStalls
	res.SimTime = s.simTime
	res.CapHit = s.capHit
	if s.stuck != "" {
		res.Stuck = true
		res.StuckInfo = s.stuck
	}
	if s.herr != "" {
		res.HarnessError = s.herr
	}
}

func (s *Sched) loop() {
	for {
		synctest.Wait()
		s.mu.Lock()
		if schedDebug && s.steps%100000 == 0 {
			fmt.Fprintf(os.Stderr, "SCHED steps=%d live=%d spawned=%d simtime=%v\n", s.steps, len(s.gs), s.nextID, time.Since(s.start))
		}
		// goroutines that have exited are dropped from the scan list now and then: a run with endless reconnects spawns
		// hundreds of thousands of short-lived goroutines
		if s.steps%512 == 0 {
			live := s.gs[:0]
			for _, g := range s.gs {
				if g.state != gExited {
					live = append(live, g)
				}
			}
			for i := len(live); i < len(s.gs); i++ {
				s.gs[i] = nil
			}
			s.gs = live
		}
		parked := s.scratch[:0]
		var bad *G
		now := time.Now()
		var nextStall time.Time
		for _, g := range s.gs {
			switch g.state {
			case gRunning:
				bad = g
			case gParked:
				if g.frozen {
					continue
				}
				if !g.stallTo.IsZero() && now.Before(g.stallTo) {
					if nextStall.IsZero() || g.stallTo.Before(nextStall) {
						nextStall = g.stallTo
					}
					continue
				}
				parked = append(parked, g)
			}
		}
		if bad != nil && !s.stop {
			s.herr = fmt.Sprintf("simulator invariant broken: goroutine %d (%s) is durably blocked outside an instrumented operation (last site %s)\n%s",
				bad.ID, bad.Name, bad.site, allStacks())
			s.stop = true
		}
		if s.stop {
			s.mu.Unlock()
			s.finish("")
			return
		}
		if s.steps >= s.cfg.MaxSteps {
			s.mu.Unlock()
			s.finish("steps")
			return
		}
		if now.Sub(s.start) > s.cfg.MaxSimTime {
			s.mu.Unlock()
			s.finish("simtime")
			return
		}
		if len(parked) == 0 {
			s.mu.Unlock()
			wait := 24 * time.Hour
			if !nextStall.IsZero() {
				wait = nextStall.Sub(now)
			}
			tm := time.NewTimer(wait)
			select {
			case <-s.notify:
				tm.Stop()
				continue
			case <-tm.C:
				if !nextStall.IsZero() {
					continue
				}
				s.finishStuck()
				return
			}
		}
		s.scratch = parked
		g := s.pick(parked)
		if g != s.lastRun {
			s.switches++
			s.ih = mix(s.ih, g.Name+"@"+g.site)
		}
		s.lastRun = g
		g.state = gRunning
		s.cur = g
		s.steps++
		s.eh = mix(s.eh, fmt.Sprintf("%d@%s", g.ID, g.site))
		if s.cfg.LogEvents {
			s.events = append(s.events, fmt.Sprintf("%d t=%v g%d(%s) %s", s.steps, now.Sub(s.start), g.ID, g.Name, g.site))
		}
		s.mu.Unlock()
		g.wake <- struct{}{}
	}
}

func (s *Sched) finish(cap string) {
	s.mu.Lock()
	s.stop = true
	s.simTime = time.Since(s.start)
	s.capHit = cap
	s.mu.Unlock()
}

func (s *Sched) finishStuck() {
	s.mu.Lock()
	s.stop = true
	var sb strings.Builder
	for _, g := range s.gs {
		if g.state == gBlocked && !g.frozen {
			fmt.Fprintf(&sb, "g%d(%s) blocked at %s; ", g.ID, g.Name, g.site)
		}
	}
	s.simTime = time.Since(s.start)
	s.stuck = "stuck: " + sb.String()
	s.mu.Unlock()
}

func (s *Sched) pick(parked []*G) *G {
	sort.Slice(parked, func(i, j int) bool { return parked[i].ID < parked[j].ID })
	if len(parked) == 1 {
		return parked[0]
	}
	// order: current first (if parked), then by id
	ci := -1
	for i, g := range parked {
		if g == s.lastRun {
			ci = i
		}
	}
	if ci > 0 {
		c := parked[ci]
		copy(parked[1:ci+1], parked[0:ci])
		parked[0] = c
	}
	var v int
	if ci >= 0 {
		v = s.dec.chooseSticky(len(parked), s.cfg.Stickiness)
	} else {
		v = s.dec.Choose(len(parked))
	}
	return parked[v]
}

func allStacks() string {
	buf := make([]byte, 1<<20)
	n := runtime.Stack(buf, true)
	return string(buf[:n])
}

// a late start is drawn from these; at most maxSpawnStalls per run, so that bounds on the whole run stay meaningful
var spawnStallSteps = []time.Duration{time.Millisecond, 20 * time.Millisecond, 300 * time.Millisecond, 1500 * time.Millisecond}

const maxSpawnStalls = 6

func (s *Sched) spawn(parent *G, name string, f func(), mayStall bool) *G {
	s.mu.Lock()
	s.nextID++
	g := &G{ID: s.nextID, Name: name, wake: make(chan struct{}), kill: make(chan struct{}), sched: s, site: "start"}
	if mayStall && s.cfg.SpawnStall > 0 && parent != nil && parent.ChildGen != 0 && s.spawnStalls < maxSpawnStalls && s.dec.Choose(100) < s.cfg.SpawnStall {
		g.stallTo = time.Now().Add(spawnStallSteps[s.dec.Choose(len(spawnStallSteps))])
		s.spawnStalls++
	}
	if parent != nil {
		g.Gen = parent.ChildGen
		g.ChildGen = parent.ChildGen
		g.frozen = parent.frozen
	}
	g.state = gParked
	s.gs = append(s.gs, g)
	s.mu.Unlock()
	go func() {
		defer func() {
			r := recover()
			s.mu.Lock()
			if r != nil && !s.dead {
				if _, isKill := r.(killSentinel); !isKill && !g.frozen {
					c := &Crash{G: g.Name, Gen: g.Gen, Value: fmt.Sprint(r), Stack: string(debug.Stack())}
					if fe, ok := r.(FatalExit); ok {
						c.Fatal = true
						c.Value = fmt.Sprintf("fatal exit code %d", fe.Code)
					}
					if s.crash == nil {
						s.crash = c
					}
					h := s.onCrash
					if h != nil {
						s.mu.Unlock()
						h(c)
						s.mu.Lock()
					} else {
						s.stop = true
					}
				}
			}
			g.state = gExited
			if g == s.driver {
				s.stop = true
			}
			s.mu.Unlock()
		}()
		select {
		case <-g.wake:
		case <-g.kill:
			return
		}
		f()
	}()
	return g
}

// awaitTurn parks until the scheduler hands over the processor; at the end of the run it makes the goroutine exit instead
func (g *G) awaitTurn() {
	select {
	case <-g.wake:
	case <-g.kill:
		runtime.Goexit()
	}
}

// teardown ends every goroutine the run has left behind, one at a time and in creation order: each is released from
// whatever it is blocked in and exits through runtime.Goexit, so its deferred calls run while nothing else does; every
// instrumented operation such a deferred call attempts exits again at once. Without this the goroutines of a finished
// bubble (and everything they reference - a whole agent with its buffers) stay in memory for the life of the process.
func (s *Sched) teardown() {
	s.mu.Lock()
	s.dead = true
	gs := append([]*G(nil), s.gs...)
	s.mu.Unlock()
	for _, g := range gs {
		s.mu.Lock()
		exited := g.state == gExited
		s.mu.Unlock()
		if exited {
			continue
		}
		close(g.kill)
		synctest.Wait()
	}
	// goroutines spawned by deferred calls meanwhile
	for round := 0; round < 8; round++ {
		s.mu.Lock()
		var more []*G
		for _, g := range s.gs[min(len(gs), len(s.gs)):] {
			if g.state != gExited {
				more = append(more, g)
			}
		}
		gs = append([]*G(nil), s.gs...)
		s.mu.Unlock()
		if len(more) == 0 {
			return
		}
		for _, g := range more {
			close(g.kill)
			synctest.Wait()
		}
	}
}

type killSentinel struct{}

// FatalExit is the panic value used to model os.Exit from logger.Fatal
type FatalExit struct{ Code int }

// OnCrash installs a handler for SUT crashes; without one a crash ends the run. The handler runs on the
// crashed goroutine, after unwinding.
func OnCrash(h func(*Crash)) {
	if s := active.Load(); s != nil {
		s.mu.Lock()
		s.onCrash = h
		s.mu.Unlock()
	}
}

// StopRun asks the scheduler to end the run at the next step
func StopRun() {
	if s := active.Load(); s != nil {
		s.mu.Lock()
		s.stop = true
		s.mu.Unlock()
	}
}

// Go starts a registered goroutine
func Go(site string, f func()) {
	s := active.Load()
	if s == nil {
		go f()
		return
	}
	g := s.cur
	yieldG(g, "go "+site)
	s.spawn(g, site, f, true) // a go statement of instrumented code
}

// GoNamed starts a registered harness goroutine with the given name and generation tag
func GoNamed(name string, gen int, f func()) {
	s := active.Load()
	if s == nil {
		panic("simrt.GoNamed outside simulation")
	}
	g := s.cur
	saved := g.ChildGen
	g.ChildGen = gen
	s.spawn(g, name, f, false)
	g.ChildGen = saved
}

// SetChildGen sets the generation tag given to goroutines spawned by the current goroutine
func SetChildGen(gen int) {
	if g := current(); g != nil {
		g.ChildGen = gen
	}
}

// FreezeGen freezes all goroutines of a generation: they are never scheduled again
func FreezeGen(gen int) {
	s := active.Load()
	if s == nil {
		return
	}
	s.mu.Lock()
	for _, g := range s.gs {
		if g.Gen == gen {
			g.frozen = true
		}
	}
	s.mu.Unlock()
}

// CurrentGen returns the generation tag of the running goroutine
func CurrentGen() int {
	if g := current(); g != nil {
		return g.Gen
	}
	return 0
}

// DieIfFrozen parks the current goroutine forever if its generation has been frozen
func DieIfFrozen() {
	g := current()
	if g != nil && g.frozen {
		parkForever(g)
	}
}

func parkForever(g *G) {
	s := g.sched
	s.mu.Lock()
	g.state = gParked
	g.frozen = true
	s.mu.Unlock()
	select {
	case s.notify <- struct{}{}:
	default:
	}
	<-g.kill
	runtime.Goexit()
}

// Yield is an explicit scheduling point
func Yield(site string) {
	if g := current(); g != nil {
		yieldG(g, site)
	}
}

func yieldG(g *G, site string) {
	s := g.sched
	s.mu.Lock()
	if s.dead {
		s.mu.Unlock()
		runtime.Goexit()
	}
	g.site = site
	g.state = gParked
	if s.cfg.YieldStall > 0 && g.Gen != 0 && s.yieldStalls < maxYieldStalls && s.dec.Choose(1000) < s.cfg.YieldStall {
		g.stallTo = time.Now().Add(yieldStallSteps[s.dec.Choose(len(yieldStallSteps))])
		s.yieldStalls++
	}
	s.mu.Unlock()
	g.awaitTurn()
	if g.frozen {
		parkForever(g)
	}
}

var yieldStallSteps = []time.Duration{time.Millisecond, 2 * time.Millisecond, 5 * time.Millisecond}

const maxYieldStalls = 8

// NowUnique is time.Now for code that uses wall-clock nanoseconds as identity (chunk ids): the simulated clock stands still
// while code runs, the real one never does, so a reading by another goroutine than the previous one is a nanosecond later
func NowUnique() time.Time {
	s := active.Load()
	if s == nil {
		return time.Now()
	}
	s.mu.Lock()
	// (readings of one goroutine - one id generator - at one instant stay equal: that is the generator's own sequence path)
	if g := s.cur; g != nil && g.ID != s.lastNowG {
		s.nowSkew++
		s.lastNowG = g.ID
	}
	d := s.nowSkew + int64(s.wallStep)
	s.mu.Unlock()
	return time.Now().Add(time.Duration(d))
}

// StepWallClock moves the wall clock seen by NowUnique by d (negative = backwards), as an NTP step or a VM resume does. Only
// wall-clock readings are affected: durations, timers and deadlines run on the monotonic clock, in Go as in the simulation.
func StepWallClock(d time.Duration) {
	if s := active.Load(); s != nil {
		s.mu.Lock()
		s.wallStep += d
		s.mu.Unlock()
	}
}

// fine is set for the duration of a run that asked for fine-grained interleaving (read by the goroutines of that run only)
var fine bool

// Enter is the preemption point the instrumenter puts at the entry of every larger function of the system under test
func Enter(site string) {
	if !fine {
		return
	}
	if g := current(); g != nil {
		yieldG(g, site)
	}
}

// block marks the goroutine as entering a blocking operation
func block(g *G, site string) {
	s := g.sched
	s.mu.Lock()
	g.site = site
	g.state = gBlocked
	s.mu.Unlock()
}

// unblock is the post-block yield: the goroutine was woken while another one may be running
func unblock(g *G) {
	s := g.sched
	s.mu.Lock()
	g.state = gParked
	s.mu.Unlock()
	select {
	case s.notify <- struct{}{}:
	default:
	}
	g.awaitTurn()
	if g.frozen {
		parkForever(g)
	}
}

// Stall prevents the named goroutines (name contains substr) from being scheduled for d
func Stall(substr string, d time.Duration) int {
	s := active.Load()
	if s == nil {
		return 0
	}
	n := 0
	until := time.Now().Add(d)
	s.mu.Lock()
	for _, g := range s.gs {
		if g.state != gExited && strings.Contains(g.Name, substr) {
			g.stallTo = until
			n++
		}
	}
	s.mu.Unlock()
	return n
}

// Choose draws a decision in [0,n)
func Choose(n int) int {
	s := active.Load()
	if s == nil {
		return 0
	}
	return s.dec.Choose(n)
}

// Snapshot lists goroutines and their states (diagnostics)
func Snapshot() string {
	s := active.Load()
	if s == nil {
		return ""
	}
	s.mu.Lock()
	defer s.mu.Unlock()
	var sb strings.Builder
	for _, g := range s.gs {
		if g.state == gExited {
			continue
		}
		fmt.Fprintf(&sb, "g%d(%s gen=%d) %s at %s frozen=%v\n", g.ID, g.Name, g.Gen, g.state, g.site, g.frozen)
	}
	return sb.String()
}
