package simrt

import (
	"fmt"
	"reflect"
	"runtime"
	"strings"
	"testing"
	"time"
)

// a small system with real choice: three workers send tagged values over one channel, a ticker and a timeout compete
func scenario(log *[]string) func() {
	return func() {
		ch := make(chan string)
		done := make(chan struct{})
		for w := 0; w < 3; w++ {
			name := fmt.Sprintf("w%d", w)
			GoNamed(name, 0, func() {
				for i := 0; i < 4; i++ {
					Send("send", ch, fmt.Sprintf("%s.%d", name, i))
					if i%2 == 1 {
						Sleep("pause", time.Duration(10*(i+1))*time.Millisecond)
					}
				}
			})
		}
		GoNamed("collector", 0, func() {
			tick := time.NewTicker(15 * time.Millisecond)
			defer tick.Stop()
			for n := 0; n < 12; {
				s := Select("collect", false, RecvCase(ch), RecvCase(tick.C))
				if s.I == 0 {
					*log = append(*log, As(ch, s))
					n++
				} else {
					*log = append(*log, "tick")
				}
			}
			Close("done", done)
		})
		Recv("wait", done)
	}
}

func runOnce(t *testing.T, cfg Config) (Result, []string) {
	t.Helper()
	var log []string
	res := Run(t, cfg, scenario(&log))
	if res.HarnessError != "" || res.Crash != nil || res.Stuck || res.CapHit != "" {
		t.Fatalf("run failed: herr=%q crash=%v stuck=%v cap=%q", res.HarnessError, res.Crash, res.StuckInfo, res.CapHit)
	}
	return res, log
}

func TestSameSeedSameExecution(t *testing.T) {
	for seed := uint64(1); seed <= 20; seed++ {
		a, la := runOnce(t, Config{Seed: seed})
		b, lb := runOnce(t, Config{Seed: seed})
		if a.EventH != b.EventH || a.Steps != b.Steps || !reflect.DeepEqual(la, lb) || !reflect.DeepEqual(a.Decisions, b.Decisions) {
			t.Fatalf("seed %d: two runs differ (%d/%d steps)\n%v\n%v", seed, a.Steps, b.Steps, la, lb)
		}
	}
}

func TestSeedsReachDifferentInterleavings(t *testing.T) {
	seen := map[string]bool{}
	for seed := uint64(1); seed <= 40; seed++ {
		_, l := runOnce(t, Config{Seed: seed})
		seen[strings.Join(l, " ")] = true
	}
	if len(seen) < 10 {
		t.Fatalf("40 seeds produced only %d distinct histories", len(seen))
	}
}

func TestReplayOfRecordedDecisions(t *testing.T) {
	for seed := uint64(100); seed < 110; seed++ {
		a, la := runOnce(t, Config{Seed: seed})
		// replay from the decision list alone, under another seed: the list decides
		b, lb := runOnce(t, Config{Seed: seed + 12345, Replay: a.Decisions, ReplayMode: true})
		if a.EventH != b.EventH || !reflect.DeepEqual(la, lb) {
			t.Fatalf("seed %d: replay differs\n%v\n%v", seed, la, lb)
		}
	}
}

func TestPerWorkerOrderIsProgramOrder(t *testing.T) {
	for seed := uint64(1); seed <= 30; seed++ {
		_, l := runOnce(t, Config{Seed: seed})
		next := map[string]int{}
		for _, e := range l {
			if e == "tick" {
				continue
			}
			var w string
			var i int
			p := strings.SplitN(e, ".", 2)
			w = p[0]
			fmt.Sscanf(p[1], "%d", &i)
			if next[w] != i {
				t.Fatalf("seed %d: %s delivered out of program order: %v", seed, w, l)
			}
			next[w]++
		}
	}
}

func TestClockOnlyAdvancesWhenEverythingIsBlocked(t *testing.T) {
	res := Run(t, Config{Seed: 5}, func() {
		t0 := Now()
		for i := 0; i < 1000; i++ {
			Yield("spin")
		}
		if Now() != t0 {
			t.Errorf("the clock advanced while a goroutine was runnable: %v", Now()-t0)
		}
		Sleep("sleep", 3*time.Hour)
		if d := Now() - t0; d != 3*time.Hour {
			t.Errorf("slept %v", d)
		}
	})
	if res.SimTime < 3*time.Hour {
		t.Fatalf("simulated time %v", res.SimTime)
	}
}

func TestTimerTieIsDecidedByTheDecisionStream(t *testing.T) {
	firstWins, secondWins := 0, 0
	for seed := uint64(1); seed <= 60; seed++ {
		var got int
		res := Run(t, Config{Seed: seed}, func() {
			a := time.NewTimer(time.Second)
			b := time.NewTimer(time.Second)
			s := Select("tie", false, RecvCase(a.C), RecvCase(b.C))
			got = s.I
			// the loser's value is not lost: the next receive on its channel sees it
			if got == 0 {
				Recv("other", b.C)
			} else {
				Recv("other", a.C)
			}
		})
		if res.HarnessError != "" || res.Stuck {
			t.Fatalf("seed %d: %s %s", seed, res.HarnessError, res.StuckInfo)
		}
		if res.TimerTies != 1 {
			t.Fatalf("seed %d: tie not detected (%d)", seed, res.TimerTies)
		}
		if got == 0 {
			firstWins++
		} else {
			secondWins++
		}
		// and the same seed decides the same way
		var again int
		Run(t, Config{Seed: seed}, func() {
			a := time.NewTimer(time.Second)
			b := time.NewTimer(time.Second)
			again = Select("tie", false, RecvCase(a.C), RecvCase(b.C)).I
			if again == 0 {
				Recv("other", b.C)
			} else {
				Recv("other", a.C)
			}
		})
		if again != got {
			t.Fatalf("seed %d: tie decided differently on the second run", seed)
		}
	}
	if firstWins == 0 || secondWins == 0 {
		t.Fatalf("the tie always went one way: %d / %d", firstWins, secondWins)
	}
}

func TestStuckRunIsReported(t *testing.T) {
	res := Run(t, Config{Seed: 1}, func() {
		Recv("forever", make(chan int))
	})
	if !res.Stuck || !strings.Contains(res.StuckInfo, "forever") {
		t.Fatalf("expected a stuck report naming the site, got %+v", res.StuckInfo)
	}
}

func TestPanicOfARegisteredGoroutineIsCaptured(t *testing.T) {
	res := Run(t, Config{Seed: 1}, func() {
		done := make(chan struct{})
		GoNamed("victim", 1, func() {
			var m map[string]int
			m["x"] = 1
		})
		Recv("wait", done)
	})
	if res.Crash == nil || res.Crash.G != "victim" || !strings.Contains(res.Crash.Value, "nil map") {
		t.Fatalf("crash not captured: %+v", res.Crash)
	}
}

func TestStepCapEndsTheRun(t *testing.T) {
	res := Run(t, Config{Seed: 1, MaxSteps: 500}, func() {
		for {
			Yield("spin")
		}
	})
	if res.CapHit != "steps" {
		t.Fatalf("cap: %q", res.CapHit)
	}
}

// every goroutine a run leaves behind - parked, blocked in a channel operation, a select, a sleep, frozen - is gone
// after the run, and its deferred calls have run one at a time
func TestTeardownLeavesNoGoroutines(t *testing.T) {
	before := runtime.NumGoroutine()
	var deferred []string
	for seed := uint64(1); seed <= 25; seed++ {
		deferred = deferred[:0]
		res := Run(t, Config{Seed: seed}, func() {
			never := make(chan int)
			mk := func(name string, gen int, f func()) {
				GoNamed(name, gen, func() {
					defer func() { deferred = append(deferred, name) }()
					f()
				})
			}
			mk("recv", 1, func() { Recv("r", never) })
			mk("send", 1, func() { Send("s", never, 1) })
			mk("select", 1, func() { Select("sel", false, RecvCase(never), RecvCase(time.After(1000*time.Hour))) })
			mk("sleep", 1, func() { Sleep("zz", 1000*time.Hour) })
			mk("forever", 1, func() { BlockForever("bf") })
			mk("frozen", 2, func() {
				for {
					Sleep("loop", 10*time.Millisecond)
				}
			})
			mk("defers-block", 1, func() {
				defer Recv("in defer", never) // an instrumented operation attempted while unwinding must not hang the teardown
				Recv("r2", never)
			})
			Sleep("let them settle", time.Second)
			FreezeGen(2)
			Sleep("more", time.Second)
		})
		if res.HarnessError != "" || res.CapHit != "" {
			t.Fatalf("seed %d: %s %s", seed, res.HarnessError, res.CapHit)
		}
		if len(deferred) != 7 {
			t.Fatalf("seed %d: deferred calls of %d goroutines ran, want 7: %v", seed, len(deferred), deferred)
		}
	}
	// goroutine exit is asynchronous by a hair
	for i := 0; i < 100 && runtime.NumGoroutine() > before; i++ {
		time.Sleep(time.Millisecond)
	}
	if n := runtime.NumGoroutine(); n > before {
		t.Fatalf("%d goroutines before, %d after 25 runs", before, n)
	}
}

func TestMapEntriesAreSortedThenPermutedByDecisions(t *testing.T) {
	m := map[string]int{"d": 4, "a": 1, "c": 3, "b": 2, "e": 5}
	orders := map[string]bool{}
	for seed := uint64(1); seed <= 40; seed++ {
		var o1, o2 string
		Run(t, Config{Seed: seed}, func() {
			for _, e := range Entries("m", m) {
				o1 += e.K
			}
		})
		Run(t, Config{Seed: seed}, func() {
			for _, e := range Entries("m", m) {
				o2 += e.K
			}
		})
		if o1 != o2 || len(o1) != 5 {
			t.Fatalf("seed %d: %q vs %q", seed, o1, o2)
		}
		orders[o1] = true
	}
	if len(orders) < 5 {
		t.Fatalf("only %d iteration orders in 40 seeds", len(orders))
	}
}

// a late start (Config.SpawnStall) delays only goroutines of the system under test, by simulated time, repeatably, and
// lets a later event overtake the start of an earlier goroutine
func TestSpawnStallDelaysTheStartOfSUTGoroutines(t *testing.T) {
	overtaken, stalls := 0, 0
	for seed := uint64(1); seed <= 60; seed++ {
		var order [2][]string
		var res [2]Result
		for rep := 0; rep < 2; rep++ {
			res[rep] = Run(t, Config{Seed: seed, SpawnStall: 50}, func() {
				done := make(chan struct{}, 3)
				GoNamed("harness-side", 0, func() { order[rep] = append(order[rep], "h"); Send("d", done, struct{}{}) })
				GoNamed("sut-parent", 1, func() {
					Go("child", func() { order[rep] = append(order[rep], "child"); Send("d", done, struct{}{}) })
					Sleep("later", 10*time.Millisecond)
					order[rep] = append(order[rep], "later")
					Send("d", done, struct{}{})
				})
				for i := 0; i < 3; i++ {
					Recv("wait", done)
				}
			})
			if res[rep].HarnessError != "" || res[rep].Stuck {
				t.Fatalf("seed %d: %s %s", seed, res[rep].HarnessError, res[rep].StuckInfo)
			}
		}
		if !reflect.DeepEqual(order[0], order[1]) || res[0].SpawnStalls != res[1].SpawnStalls {
			t.Fatalf("seed %d: not repeatable: %v / %v", seed, order[0], order[1])
		}
		stalls += res[0].SpawnStalls
		o := strings.Join(order[0], " ")
		if strings.Index(o, "later") < strings.Index(o, "child") {
			overtaken++
		}
	}
	if stalls == 0 || overtaken == 0 {
		t.Fatalf("stalls=%d, runs in which the 10 ms sleep overtook the child's start=%d", stalls, overtaken)
	}
	// without the knob a sleeping goroutine never overtakes the start of a runnable one
	for seed := uint64(1); seed <= 20; seed++ {
		var order []string
		Run(t, Config{Seed: seed}, func() {
			done := make(chan struct{}, 2)
			GoNamed("sut-parent", 1, func() {
				Go("child", func() { order = append(order, "child"); Send("d", done, struct{}{}) })
				Sleep("later", 10*time.Millisecond)
				order = append(order, "later")
				Send("d", done, struct{}{})
			})
			Recv("wait", done)
			Recv("wait", done)
		})
		if strings.Join(order, " ") != "child later" {
			t.Fatalf("seed %d: %v", seed, order)
		}
	}
}
