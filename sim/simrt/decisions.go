package simrt

// Decisions is the single source of every nondeterministic choice made during a run. In generation
// mode values come from a PRNG seeded by the run seed and are recorded; in replay mode they are read
// back from the recorded list (0 once exhausted).
type Decisions struct {
	replay     []uint32
	replayMode bool
	pos        int
	rec        []uint32
	state      uint64
}

func newDecisions(seed uint64, replay []uint32, replayMode bool) *Decisions {
	return &Decisions{replay: replay, replayMode: replayMode, state: seed*0x9E3779B97F4A7C15 + 0x1234567}
}

// splitmix64
func (d *Decisions) next() uint64 {
	d.state += 0x9E3779B97F4A7C15
	z := d.state
	z = (z ^ (z >> 30)) * 0xBF58476D1CE4E5B9
	z = (z ^ (z >> 27)) * 0x94D049BB133111EB
	return z ^ (z >> 31)
}

func (d *Decisions) replayNext(n int) int {
	v := 0
	if d.pos < len(d.replay) {
		v = int(d.replay[d.pos]) % n
	}
	d.pos++
	return v
}

// Choose returns a value in [0,n)
func (d *Decisions) Choose(n int) int {
	if n <= 1 {
		return 0
	}
	var v int
	if d.replayMode {
		v = d.replayNext(n)
	} else {
		v = int(d.next() % uint64(n))
	}
	d.rec = append(d.rec, uint32(v))
	return v
}

// chooseSticky returns 0 with probability stick% (keep the current goroutine), else one of 1..n-1
func (d *Decisions) chooseSticky(n int, stick int) int {
	if n <= 1 {
		return 0
	}
	var v int
	if d.replayMode {
		v = d.replayNext(n)
	} else if int(d.next()%100) < stick {
		v = 0
	} else {
		v = 1 + int(d.next()%uint64(n-1))
	}
	d.rec = append(d.rec, uint32(v))
	return v
}

// Rand is a small deterministic PRNG for scenario generation (outside the decision stream)
type Rand struct{ d Decisions }

// NewRand creates a scenario PRNG
func NewRand(seed uint64) *Rand {
	return &Rand{d: Decisions{state: seed*0xD1342543DE82EF95 + 0x9876543}}
}

// Intn returns a value in [0,n)
func (r *Rand) Intn(n int) int {
	if n <= 0 {
		return 0
	}
	return int(r.d.next() % uint64(n))
}

// Uint64 returns a random 64-bit value
func (r *Rand) Uint64() uint64 { return r.d.next() }

// Range returns a value in [lo,hi]
func (r *Rand) Range(lo, hi int) int {
	if hi <= lo {
		return lo
	}
	return lo + r.Intn(hi-lo+1)
}

// Bool returns true with probability pct%
func (r *Rand) Bool(pct int) bool { return r.Intn(100) < pct }

// Pick returns a random element index weighted by w
func (r *Rand) Pick(w ...int) int {
	t := 0
	for _, x := range w {
		t += x
	}
	v := r.Intn(t)
	for i, x := range w {
		if v < x {
			return i
		}
		v -= x
	}
	return len(w) - 1
}
