package simrt

import (
	"fmt"
	"reflect"
	"runtime"
	"sort"
	"time"
)

// Send is `ch <- v`
func Send[T any](site string, ch chan<- T, v T) {
	g := current()
	if g == nil {
		ch <- v
		return
	}
	yieldG(g, site)
	select {
	case ch <- v:
		return
	default:
	}
	block(g, site)
	select {
	case ch <- v:
	case <-g.kill:
		runtime.Goexit()
	}
	unblock(g)
}

// SendTo is the form the instrumenter emits: T is inferred from the channel alone, so the value only has to
// be assignable (interface conversion, untyped constants, nil)
func SendTo[T any](site string, ch chan<- T) func(T) {
	return func(v T) { Send(site, ch, v) }
}

// SendCaseTo is SendCase with T inferred from the channel alone
func SendCaseTo[T any](ch chan<- T) func(T) Case {
	return func(v T) Case { return SendCase(ch, v) }
}

// Recv is `<-ch`
func Recv[T any](site string, ch <-chan T) T {
	v, _ := Recv2(site, ch)
	return v
}

// Recv2 is `v, ok := <-ch`
func Recv2[T any](site string, ch <-chan T) (v T, ok bool) {
	g := current()
	if g == nil {
		v, ok = <-ch
		return
	}
	yieldG(g, site)
	if len(g.sched.stash) > 0 {
		if sv, found := g.sched.unstash(reflect.ValueOf(ch)); found {
			reflect.ValueOf(&v).Elem().Set(sv)
			return v, true
		}
	}
	select {
	case v, ok = <-ch:
		return
	default:
	}
	block(g, site)
	select {
	case v, ok = <-ch:
	case <-g.kill:
		runtime.Goexit()
	}
	unblock(g)
	return
}

// Close is close(ch)
func Close[T any](site string, ch chan<- T) {
	if g := current(); g != nil {
		yieldG(g, site)
	}
	close(ch)
}

// Sleep is time.Sleep
func Sleep(site string, d time.Duration) {
	g := current()
	if g == nil {
		time.Sleep(d)
		return
	}
	yieldG(g, site)
	if d <= 0 {
		return
	}
	block(g, site)
	tm := time.NewTimer(d)
	select {
	case <-tm.C:
	case <-g.kill:
		tm.Stop()
		runtime.Goexit()
	}
	unblock(g)
}

// BlockForever is `select {}`
func BlockForever(site string) {
	g := current()
	if g == nil {
		select {}
	}
	yieldG(g, site)
	block(g, site)
	<-g.kill
	runtime.Goexit()
}

// Case is one communication clause of a select
type Case struct {
	c reflect.SelectCase
}

// Sel is the outcome of a select
type Sel struct {
	I  int // index of the chosen case, -1 = default
	v  reflect.Value
	ok bool
}

// RecvCase builds a receive clause
func RecvCase[T any](ch <-chan T) Case {
	return Case{reflect.SelectCase{Dir: reflect.SelectRecv, Chan: reflect.ValueOf(ch)}}
}

// SendCase builds a send clause
func SendCase[T any](ch chan<- T, v T) Case {
	return Case{reflect.SelectCase{Dir: reflect.SelectSend, Chan: reflect.ValueOf(ch), Send: reflect.ValueOf(&v).Elem()}}
}

// As extracts the received value of the chosen receive clause; ch only carries the type
func As[T any](ch <-chan T, s Sel) T {
	v, _ := As2(ch, s)
	return v
}

// As2 extracts the received value and ok flag
func As2[T any](_ <-chan T, s Sel) (out T, ok bool) {
	if s.v.IsValid() {
		reflect.ValueOf(&out).Elem().Set(s.v)
	}
	return out, s.ok
}

var defaultCase = reflect.SelectCase{Dir: reflect.SelectDefault}

func (g *G) killCase() reflect.SelectCase {
	return reflect.SelectCase{Dir: reflect.SelectRecv, Chan: reflect.ValueOf(g.kill)}
}

// Select is a select statement: yields, polls the clauses starting from a position given by the decision
// stream, takes the first ready one, else default, else blocks on all of them
func Select(site string, hasDefault bool, cases ...Case) Sel {
	g := current()
	rc := make([]reflect.SelectCase, len(cases))
	for i := range cases {
		rc[i] = cases[i].c
	}
	if g == nil {
		if hasDefault {
			rc = append(rc, defaultCase)
		}
		i, v, ok := reflect.Select(rc)
		if hasDefault && i == len(cases) {
			i = -1
		}
		return Sel{i, v, ok}
	}
	yieldG(g, site)
	if i, v, ok, done := poll(g, rc); done {
		return Sel{i, v, ok}
	}
	if hasDefault {
		return Sel{I: -1}
	}
	block(g, site)
	i, v, ok := reflect.Select(append(rc, g.killCase()))
	if i == len(rc) {
		runtime.Goexit()
	}
	unblock(g)
	i, v, ok = g.sched.breakTimerTie(rc, i, v, ok)
	return Sel{i, v, ok}
}

func poll(g *G, rc []reflect.SelectCase) (int, reflect.Value, bool, bool) {
	n := len(rc)
	if n == 0 {
		return 0, reflect.Value{}, false, false
	}
	start := 0
	if n > 1 {
		start = g.sched.dec.Choose(n)
	}
	var two [2]reflect.SelectCase
	two[1] = defaultCase
	for k := 0; k < n; k++ {
		i := (start + k) % n
		if !rc[i].Chan.IsValid() || rc[i].Chan.IsNil() {
			continue
		}
		if rc[i].Dir == reflect.SelectRecv && len(g.sched.stash) > 0 {
			if sv, found := g.sched.unstash(rc[i].Chan); found {
				return i, sv, true, true
			}
		}
		two[0] = rc[i]
		c, v, ok := reflect.Select(two[:])
		if c == 0 {
			return i, v, ok, true
		}
	}
	return 0, reflect.Value{}, false, false
}

// ReflectSelect is reflect.Select
func ReflectSelect(site string, cases []reflect.SelectCase) (int, reflect.Value, bool) {
	g := current()
	if g == nil {
		return reflect.Select(cases)
	}
	hasDefault := false
	di := -1
	rc := make([]reflect.SelectCase, 0, len(cases))
	idx := make([]int, 0, len(cases))
	for i, c := range cases {
		if c.Dir == reflect.SelectDefault {
			hasDefault = true
			di = i
			continue
		}
		rc = append(rc, c)
		idx = append(idx, i)
	}
	yieldG(g, site)
	if i, v, ok, done := poll(g, rc); done {
		return idx[i], v, ok
	}
	if hasDefault {
		return di, reflect.Value{}, false
	}
	block(g, site)
	i, v, ok := reflect.Select(append(rc, g.killCase()))
	if i == len(rc) {
		runtime.Goexit()
	}
	unblock(g)
	i, v, ok = g.sched.breakTimerTie(rc, i, v, ok)
	return idx[i], v, ok
}

// Entry is one map entry
type Entry[K comparable, V any] struct {
	K K
	V V
}

// Entries returns a snapshot of the map's entries in an order chosen by the decision stream (sorted, then
// rotated/permuted), replacing Go's randomised map iteration
func Entries[K comparable, V any](site string, m map[K]V) []Entry[K, V] {
	es := make([]Entry[K, V], 0, len(m))
	for k, v := range m {
		es = append(es, Entry[K, V]{k, v})
	}
	if len(es) <= 1 {
		return es
	}
	sort.Slice(es, func(i, j int) bool { return lessAny(es[i].K, es[j].K) })
	g := current()
	if g == nil {
		return es
	}
	// permutation drawn lazily: Fisher-Yates with decisions (0 = identity)
	for i := 0; i < len(es)-1; i++ {
		j := i + g.sched.dec.Choose(len(es)-i)
		es[i], es[j] = es[j], es[i]
	}
	return es
}

// MapKeys replaces maps.Keys
func MapKeys[K comparable, V any](site string, m map[K]V) []K {
	es := Entries(site, m)
	ks := make([]K, len(es))
	for i, e := range es {
		ks[i] = e.K
	}
	return ks
}

// MapValues replaces maps.Values
func MapValues[K comparable, V any](site string, m map[K]V) []V {
	es := Entries(site, m)
	vs := make([]V, len(es))
	for i, e := range es {
		vs[i] = e.V
	}
	return vs
}

func lessAny(a, b any) bool {
	va, vb := reflect.ValueOf(a), reflect.ValueOf(b)
	switch va.Kind() {
	case reflect.String:
		return va.String() < vb.String()
	case reflect.Int, reflect.Int8, reflect.Int16, reflect.Int32, reflect.Int64:
		return va.Int() < vb.Int()
	case reflect.Uint, reflect.Uint8, reflect.Uint16, reflect.Uint32, reflect.Uint64, reflect.Uintptr:
		return va.Uint() < vb.Uint()
	case reflect.Float32, reflect.Float64:
		return va.Float() < vb.Float()
	case reflect.Bool:
		return !va.Bool() && vb.Bool()
	case reflect.Struct, reflect.Array, reflect.Interface:
		sa, sb := fmt.Sprintf("%#v", a), fmt.Sprintf("%#v", b)
		return sa < sb
	}
	panic(fmt.Sprintf("simrt: map key kind %s has no deterministic order", va.Kind()))
}

var timeType = reflect.TypeOf(time.Time{})

func isTimerCase(c reflect.SelectCase) bool {
	return c.Dir == reflect.SelectRecv && c.Chan.IsValid() && !c.Chan.IsNil() && c.Chan.Type().Elem() == timeType
}

func (s *Sched) unstash(ch reflect.Value) (reflect.Value, bool) {
	if !ch.IsValid() || ch.IsNil() {
		return reflect.Value{}, false
	}
	k := ch.Pointer()
	e, ok := s.stash[k]
	if ok {
		delete(s.stash, k)
	}
	return e.v, ok
}

// a stashed timer value keeps its channel alive, so the address used as key cannot be reused by another channel
type stashed struct {
	ch reflect.Value
	v  reflect.Value
}

// breakTimerTie removes the one scheduling choice the Go runtime would otherwise make for us: when several
// timers of one blocked select expire at the same simulated instant, which of them wakes the select depends on
// the runtime's timer heap. After the wake-up (we are the single runner again) every other expired timer case
// is drained, one of the expired cases is chosen by the decision stream, and the values of the others are
// stashed so that the next receive on those channels sees them, exactly as if they had fired an instant later.
func (s *Sched) breakTimerTie(rc []reflect.SelectCase, i int, v reflect.Value, ok bool) (int, reflect.Value, bool) {
	if !isTimerCase(rc[i]) {
		return i, v, ok
	}
	type hit struct {
		i int
		v reflect.Value
	}
	hits := []hit{{i, v}}
	var two [2]reflect.SelectCase
	two[1] = defaultCase
	for j := range rc {
		if j == i || !isTimerCase(rc[j]) {
			continue
		}
		two[0] = rc[j]
		if c, jv, jok := reflect.Select(two[:]); c == 0 && jok {
			hits = append(hits, hit{j, jv})
		}
	}
	if len(hits) == 1 {
		return i, v, ok
	}
	sort.Slice(hits, func(a, b int) bool { return hits[a].i < hits[b].i })
	pick := s.dec.Choose(len(hits))
	for k, h := range hits {
		if k != pick {
			if s.stash == nil {
				s.stash = map[uintptr]stashed{}
			}
			s.stash[rc[h.i].Chan.Pointer()] = stashed{rc[h.i].Chan, h.v}
		}
	}
	s.timerTies++
	return hits[pick].i, hits[pick].v, true
}
