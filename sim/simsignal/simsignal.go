// Package simsignal replaces os/signal in instrumented code: Notify registers the channel with the
// simulator; the driver delivers signals with the runtime's non-blocking-send semantics.
package simsignal

import (
	"os"
	"sync"
)

type reg struct {
	c    chan<- os.Signal
	sigs []os.Signal
}

var (
	mu   sync.Mutex
	regs []reg
)

// Reset drops all registrations (called at the start of each run)
func Reset() {
	mu.Lock()
	regs = nil
	mu.Unlock()
}

// Notify is signal.Notify
func Notify(c chan<- os.Signal, sig ...os.Signal) {
	mu.Lock()
	regs = append(regs, reg{c, sig})
	mu.Unlock()
}

// Stop is signal.Stop
func Stop(c chan<- os.Signal) {
	mu.Lock()
	out := regs[:0]
	for _, r := range regs {
		if r.c != c {
			out = append(out, r)
		}
	}
	regs = out
	mu.Unlock()
}

// Ignore is signal.Ignore
func Ignore(sig ...os.Signal) {}

// Reset is signal.Reset
func ResetSignals(sig ...os.Signal) {}

// Deliver sends sig to every registered channel (non-blocking, like the runtime). Returns the number of
// channels that accepted it.
func Deliver(sig os.Signal) int {
	mu.Lock()
	rs := append([]reg(nil), regs...)
	mu.Unlock()
	n := 0
	for _, r := range rs {
		match := len(r.sigs) == 0
		for _, s := range r.sigs {
			if s == sig {
				match = true
			}
		}
		if !match {
			continue
		}
		select {
		case r.c <- sig:
			n++
		default:
		}
	}
	return n
}

// Registered returns the number of channels registered for sig
func Registered(sig os.Signal) int {
	mu.Lock()
	defer mu.Unlock()
	n := 0
	for _, r := range regs {
		for _, s := range r.sigs {
			if s == sig {
				n++
			}
		}
	}
	return n
}
