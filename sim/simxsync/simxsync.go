// Package simxsync replaces github.com/puzpuzpuz/xsync in instrumented code. Only RBMutex is used by
// slog-agent; the real one spins with runtime.Gosched when contended, which never quiesces in a
// bubble. Semantics kept: many readers or one writer, writer-preferring.
package simxsync

import "verif.local/sim/simsync"

// RToken is the reader token of RBMutex
type RToken struct{}

// RBMutex is xsync.RBMutex
type RBMutex struct {
	rw simsync.RWMutex
}

var tok RToken

// RLock is RBMutex.RLock
func (m *RBMutex) RLock() *RToken { m.rw.RLock(); return &tok }

// RUnlock is RBMutex.RUnlock
func (m *RBMutex) RUnlock(_ *RToken) { m.rw.RUnlock() }

// Lock is RBMutex.Lock
func (m *RBMutex) Lock() { m.rw.Lock() }

// Unlock is RBMutex.Unlock
func (m *RBMutex) Unlock() { m.rw.Unlock() }
