// Package simatomic replaces sync/atomic in instrumented code: same operations, with a scheduling
// point before each one so the simulator can interleave goroutines around atomics.
package simatomic

import (
	"sync/atomic"

	"verif.local/sim/simrt"
)

func y() { simrt.Yield("atomic") }

func AddInt32(addr *int32, delta int32) int32     { y(); return atomic.AddInt32(addr, delta) }
func AddInt64(addr *int64, delta int64) int64     { y(); return atomic.AddInt64(addr, delta) }
func AddUint32(addr *uint32, delta uint32) uint32 { y(); return atomic.AddUint32(addr, delta) }
func AddUint64(addr *uint64, delta uint64) uint64 { y(); return atomic.AddUint64(addr, delta) }
func LoadInt32(addr *int32) int32                 { y(); return atomic.LoadInt32(addr) }
func LoadInt64(addr *int64) int64                 { y(); return atomic.LoadInt64(addr) }
func LoadUint32(addr *uint32) uint32              { y(); return atomic.LoadUint32(addr) }
func LoadUint64(addr *uint64) uint64              { y(); return atomic.LoadUint64(addr) }
func StoreInt32(addr *int32, v int32)             { y(); atomic.StoreInt32(addr, v) }
func StoreInt64(addr *int64, v int64)             { y(); atomic.StoreInt64(addr, v) }
func StoreUint32(addr *uint32, v uint32)          { y(); atomic.StoreUint32(addr, v) }
func StoreUint64(addr *uint64, v uint64)          { y(); atomic.StoreUint64(addr, v) }
func SwapInt32(addr *int32, v int32) int32        { y(); return atomic.SwapInt32(addr, v) }
func SwapInt64(addr *int64, v int64) int64        { y(); return atomic.SwapInt64(addr, v) }
func SwapUint32(addr *uint32, v uint32) uint32    { y(); return atomic.SwapUint32(addr, v) }
func SwapUint64(addr *uint64, v uint64) uint64    { y(); return atomic.SwapUint64(addr, v) }
func CompareAndSwapInt32(addr *int32, o, n int32) bool {
	y()
	return atomic.CompareAndSwapInt32(addr, o, n)
}
func CompareAndSwapInt64(addr *int64, o, n int64) bool {
	y()
	return atomic.CompareAndSwapInt64(addr, o, n)
}
func CompareAndSwapUint32(addr *uint32, o, n uint32) bool {
	y()
	return atomic.CompareAndSwapUint32(addr, o, n)
}
func CompareAndSwapUint64(addr *uint64, o, n uint64) bool {
	y()
	return atomic.CompareAndSwapUint64(addr, o, n)
}

type Int32 struct{ v atomic.Int32 }

func (x *Int32) Load() int32                    { y(); return x.v.Load() }
func (x *Int32) Store(v int32)                  { y(); x.v.Store(v) }
func (x *Int32) Add(d int32) int32              { y(); return x.v.Add(d) }
func (x *Int32) Swap(v int32) int32             { y(); return x.v.Swap(v) }
func (x *Int32) CompareAndSwap(o, n int32) bool { y(); return x.v.CompareAndSwap(o, n) }

type Int64 struct{ v atomic.Int64 }

func (x *Int64) Load() int64                    { y(); return x.v.Load() }
func (x *Int64) Store(v int64)                  { y(); x.v.Store(v) }
func (x *Int64) Add(d int64) int64              { y(); return x.v.Add(d) }
func (x *Int64) Swap(v int64) int64             { y(); return x.v.Swap(v) }
func (x *Int64) CompareAndSwap(o, n int64) bool { y(); return x.v.CompareAndSwap(o, n) }

type Uint32 struct{ v atomic.Uint32 }

func (x *Uint32) Load() uint32                    { y(); return x.v.Load() }
func (x *Uint32) Store(v uint32)                  { y(); x.v.Store(v) }
func (x *Uint32) Add(d uint32) uint32             { y(); return x.v.Add(d) }
func (x *Uint32) Swap(v uint32) uint32            { y(); return x.v.Swap(v) }
func (x *Uint32) CompareAndSwap(o, n uint32) bool { y(); return x.v.CompareAndSwap(o, n) }

type Uint64 struct{ v atomic.Uint64 }

func (x *Uint64) Load() uint64                    { y(); return x.v.Load() }
func (x *Uint64) Store(v uint64)                  { y(); x.v.Store(v) }
func (x *Uint64) Add(d uint64) uint64             { y(); return x.v.Add(d) }
func (x *Uint64) Swap(v uint64) uint64            { y(); return x.v.Swap(v) }
func (x *Uint64) CompareAndSwap(o, n uint64) bool { y(); return x.v.CompareAndSwap(o, n) }

type Bool struct{ v atomic.Bool }

func (x *Bool) Load() bool                    { y(); return x.v.Load() }
func (x *Bool) Store(v bool)                  { y(); x.v.Store(v) }
func (x *Bool) Swap(v bool) bool              { y(); return x.v.Swap(v) }
func (x *Bool) CompareAndSwap(o, n bool) bool { y(); return x.v.CompareAndSwap(o, n) }

type Value struct{ v atomic.Value }

func (x *Value) Load() any                    { y(); return x.v.Load() }
func (x *Value) Store(v any)                  { y(); x.v.Store(v) }
func (x *Value) Swap(v any) any               { y(); return x.v.Swap(v) }
func (x *Value) CompareAndSwap(o, n any) bool { y(); return x.v.CompareAndSwap(o, n) }

type Pointer[T any] struct{ v atomic.Pointer[T] }

func (x *Pointer[T]) Load() *T                    { y(); return x.v.Load() }
func (x *Pointer[T]) Store(v *T)                  { y(); x.v.Store(v) }
func (x *Pointer[T]) Swap(v *T) *T                { y(); return x.v.Swap(v) }
func (x *Pointer[T]) CompareAndSwap(o, n *T) bool { y(); return x.v.CompareAndSwap(o, n) }
