module verif.local/sim

go 1.25
