// Package unix is the simulator's façade for golang.org/x/sys/unix in the disk-touching files of slog-agent
package unix

import (
	"path/filepath"
	"syscall"

	"verif.local/sim/simfs"
)

const (
	O_RDONLY    = simfs.O_RDONLY
	O_WRONLY    = simfs.O_WRONLY
	O_RDWR      = simfs.O_RDWR
	O_CREAT     = simfs.O_CREAT
	O_EXCL      = simfs.O_EXCL
	O_TRUNC     = simfs.O_TRUNC
	O_APPEND    = simfs.O_APPEND
	O_CLOEXEC   = 0x80000
	O_SYNC      = 0x101000
	O_DSYNC     = 0x1000
	O_NOFOLLOW  = 0x20000
	O_DIRECTORY = 0x10000

	AT_FDCWD     = -0x64
	AT_REMOVEDIR = 0x200

	DT_DIR = 0x4
	DT_REG = 0x8

	S_IFMT  = 0o170000
	S_IFDIR = simfs.S_IFDIR
	S_IFREG = simfs.S_IFREG

	ENOENT = syscall.ENOENT
	ENOSPC = syscall.ENOSPC
	EIO    = syscall.EIO
	EEXIST = syscall.EEXIST
	EINTR  = syscall.EINTR
	EAGAIN = syscall.EAGAIN
	EACCES = syscall.EACCES
	EDQUOT = syscall.EDQUOT
	EFBIG  = syscall.EFBIG
)

type Errno = syscall.Errno

// Stat_t carries the fields slog-agent reads
type Stat_t struct {
	Dev     uint64
	Ino     uint64
	Nlink   uint64
	Mode    uint32
	Uid     uint32
	Gid     uint32
	Size    int64
	Blksize int64
	Blocks  int64
}

func resolve(dirfd int, path string) (string, error) {
	if filepath.IsAbs(path) {
		return filepath.Clean(path), nil
	}
	dir, ok := simfs.Cur.PathOf(dirfd)
	if !ok {
		return "", syscall.EBADF
	}
	return filepath.Join(dir, path), nil
}

func fill(st *Stat_t, si simfs.StatInfo) {
	*st = Stat_t{Mode: si.Mode, Size: si.Size, Nlink: 1, Blksize: 4096, Blocks: (si.Size + 511) / 512}
}

func Openat(dirfd int, path string, flags int, mode uint32) (int, error) {
	p, err := resolve(dirfd, path)
	if err != nil {
		return -1, err
	}
	return simfs.Cur.Open(p, flags&(3|O_CREAT|O_EXCL|O_TRUNC|O_APPEND), mode)
}

func Open(path string, flags int, mode uint32) (int, error) {
	return Openat(AT_FDCWD, path, flags, mode)
}

func Fstat(fd int, st *Stat_t) error {
	si, err := simfs.Cur.Fstat(fd)
	if err != nil {
		return err
	}
	fill(st, si)
	return nil
}

func Fstatat(dirfd int, path string, st *Stat_t, flags int) error {
	p, err := resolve(dirfd, path)
	if err != nil {
		return err
	}
	si, err := simfs.Cur.Stat(p)
	if err != nil {
		return err
	}
	fill(st, si)
	return nil
}

func Stat(path string, st *Stat_t) error { return Fstatat(AT_FDCWD, path, st, 0) }

func Read(fd int, p []byte) (int, error)  { return simfs.Cur.Read(fd, p) }
func Write(fd int, p []byte) (int, error) { return simfs.Cur.Write(fd, p) }
func Close(fd int) error                  { return simfs.Cur.Close(fd) }
func Fsync(fd int) error                  { return simfs.Cur.Fsync(fd) }
func Fdatasync(fd int) error              { return simfs.Cur.Fsync(fd) }
func Ftruncate(fd int, n int64) error     { return simfs.Cur.Truncate(fd, n) }

func Unlinkat(dirfd int, path string, flags int) error {
	p, err := resolve(dirfd, path)
	if err != nil {
		return err
	}
	return simfs.Cur.Unlink(p)
}

func Unlink(path string) error { return Unlinkat(AT_FDCWD, path, 0) }

func Renameat(olddirfd int, oldpath string, newdirfd int, newpath string) error {
	op, err := resolve(olddirfd, oldpath)
	if err != nil {
		return err
	}
	np, err := resolve(newdirfd, newpath)
	if err != nil {
		return err
	}
	return simfs.Cur.Rename(op, np)
}

func Rename(oldpath, newpath string) error {
	return Renameat(AT_FDCWD, oldpath, AT_FDCWD, newpath)
}

func Mkdirat(dirfd int, path string, mode uint32) error {
	p, err := resolve(dirfd, path)
	if err != nil {
		return err
	}
	return simfs.Cur.MkdirAll(p, mode)
}
