// Package simfs is the simulator's in-memory disk. Façade packages simfs/os, simfs/unix and simfs/xattr
// expose exactly the names the two disk-touching packages of slog-agent use. Every operation is a
// scheduling point and a fault point: the harness's Hook decides per operation whether it fails, writes
// short, or kills the generation (process-kill crash model: completed writes survive, the write in
// progress stops after k bytes, nothing else is lost).
package simfs

import (
	"fmt"
	"os"
	"sort"
	"strings"
	"syscall"

	"verif.local/sim/simrt"
)

// Prefix is the path prefix of the simulated tree; other paths pass through to the real OS (read-only use)
const Prefix = "/simfs"

type node struct {
	name     string
	dir      bool
	children map[string]*node
	order    []string // insertion order of children
	data     []byte
	mode     uint32
	xattrs   map[string][]byte
	// faults
	Unreadable bool // EIO on read
	Unusable   bool // EACCES on open / create inside (directories)
}

// Op describes one file-system operation offered to the fault hook
type Op struct {
	Idx  int    // global operation index in this run
	Kind string // open, create, write, read, close, unlink, mkdir, stat, readdir, rename, fsync
	Path string
	Len  int // bytes requested (write/read)
	Gen  int
}

// Action is the hook's verdict
type Action struct {
	Err      syscall.Errno // fail with this error (after Short bytes for write)
	Short    int           // write: only this many bytes are written (>=0 enables when ShortSet)
	ShortSet bool
	Kill     bool // kill the generation right after the (partial) effect
}

// Stats counts operations and faults that actually fired
type Stats struct {
	Ops         map[string]int
	ErrInjected map[string]int
	ShortWrites int
	FdReuses    int
	Kills       int
	ENOSPC      int
}

// FS is the disk of one run; it survives generations
type FS struct {
	root      *node
	handles   map[int]*handle
	nextFD    int // descriptors are numbered from nextFD+1
	everFD    map[int]bool
	opIdx     int
	Hook      func(op Op) Action
	OnKill    func(gen int)
	Trace     []Op
	KeepTrace bool
	Capacity  int64  // 0 = unlimited
	Umask     uint32 // permission bits cleared from the mode of every file and directory the code under test creates
	used      int64
	Stats     Stats
}

type handle struct {
	n      *node
	path   string
	gen    int
	wr     bool
	pos    int
	dirPos int
}

var debugFS = os.Getenv("VERIF_DEBUG_FS") != ""

// Cur is the disk of the current run
var Cur *FS

// Reset creates a fresh disk
func Reset() *FS {
	Cur = &FS{root: &node{name: "/", dir: true, children: map[string]*node{}, mode: 0o755}, handles: map[int]*handle{}, nextFD: 1000, everFD: map[int]bool{}}
	Cur.Stats.Ops = map[string]int{}
	Cur.Stats.ErrInjected = map[string]int{}
	return Cur
}

// IsSim reports whether path belongs to the simulated tree
func IsSim(path string) bool { return path == Prefix || strings.HasPrefix(path, Prefix+"/") }

func split(path string) []string {
	var out []string
	for _, p := range strings.Split(path, "/") {
		switch p {
		case "", ".":
		case "..":
			if len(out) > 0 {
				out = out[:len(out)-1]
			}
		default:
			out = append(out, p)
		}
	}
	return out
}

func (fs *FS) walk(parts []string) *node {
	n := fs.root
	for _, p := range parts {
		if !n.dir {
			return nil
		}
		c := n.children[p]
		if c == nil {
			return nil
		}
		n = c
	}
	return n
}

func (fs *FS) lookup(path string) *node { return fs.walk(split(path)) }

func (fs *FS) parentOf(path string) (*node, string) {
	parts := split(path)
	if len(parts) == 0 {
		return nil, ""
	}
	return fs.walk(parts[:len(parts)-1]), parts[len(parts)-1]
}

func (n *node) addChild(c *node) {
	n.children[c.name] = c
	n.order = append(n.order, c.name)
}

func (n *node) delChild(name string) {
	delete(n.children, name)
	for i, x := range n.order {
		if x == name {
			n.order = append(n.order[:i], n.order[i+1:]...)
			break
		}
	}
}

// begin is the common prologue: scheduling point, dead-generation check, fault hook
func (fs *FS) begin(kind, path string, length int) Action {
	simrt.Yield("simfs." + kind)
	simrt.DieIfFrozen()
	fs.opIdx++
	op := Op{Idx: fs.opIdx, Kind: kind, Path: path, Len: length, Gen: simrt.CurrentGen()}
	fs.Stats.Ops[kind]++
	if debugFS {
		fmt.Fprintf(os.Stderr, "SIMFS %d gen=%d %s %s len=%d\n", fs.opIdx, op.Gen, kind, path, length)
	}
	if fs.KeepTrace {
		fs.Trace = append(fs.Trace, op)
	}
	var a Action
	if fs.Hook != nil {
		a = fs.Hook(op)
	}
	if a.Err != 0 {
		fs.Stats.ErrInjected[kind+":"+a.Err.Error()]++
	}
	return a
}

func (fs *FS) kill() {
	fs.Stats.Kills++
	gen := simrt.CurrentGen()
	// descriptors of the dead process vanish
	for fd, h := range fs.handles {
		if h.gen == gen {
			delete(fs.handles, fd)
		}
	}
	if fs.OnKill != nil {
		fs.OnKill(gen)
	}
	simrt.FreezeGen(gen)
	simrt.DieIfFrozen()
}

// MkdirAll creates a directory path
func (fs *FS) MkdirAll(path string, mode uint32) error {
	a := fs.begin("mkdir", path, 0)
	if a.Err != 0 {
		return a.Err
	}
	n := fs.root
	for _, p := range split(path) {
		if !n.dir {
			return syscall.ENOTDIR
		}
		c := n.children[p]
		if c == nil {
			if n.Unusable {
				return syscall.EACCES
			}
			c = &node{name: p, dir: true, children: map[string]*node{}, mode: mode &^ fs.Umask}
			n.addChild(c)
		}
		n = c
	}
	if !n.dir {
		return syscall.ENOTDIR
	}
	if a.Kill {
		fs.kill()
	}
	return nil
}

// Open flags (same values as Linux)
const (
	O_RDONLY = 0x0
	O_WRONLY = 0x1
	O_RDWR   = 0x2
	O_CREAT  = 0x40
	O_EXCL   = 0x80
	O_TRUNC  = 0x200
	O_APPEND = 0x400
)

// Open opens path (absolute within the simulated tree)
func (fs *FS) Open(path string, flags int, mode uint32) (int, error) {
	kind := "open"
	if flags&O_CREAT != 0 {
		kind = "create"
	}
	a := fs.begin(kind, path, 0)
	if a.Err != 0 {
		if a.Kill {
			fs.kill()
		}
		return -1, a.Err
	}
	parent, name := fs.parentOf(path)
	var n *node
	if name == "" {
		n = fs.root
	} else {
		if parent == nil {
			return -1, syscall.ENOENT
		}
		if !parent.dir {
			return -1, syscall.ENOTDIR
		}
		n = parent.children[name]
	}
	wr := flags&(O_WRONLY|O_RDWR) != 0
	if n == nil {
		if flags&O_CREAT == 0 {
			return -1, syscall.ENOENT
		}
		if parent.Unusable {
			return -1, syscall.EACCES
		}
		n = &node{name: name, mode: mode &^ fs.Umask}
		parent.addChild(n)
	} else {
		if flags&O_CREAT != 0 && flags&O_EXCL != 0 {
			return -1, syscall.EEXIST
		}
		if n.dir && wr {
			return -1, syscall.EISDIR
		}
		if n.dir && n.Unusable {
			return -1, syscall.EACCES
		}
		if wr && flags&O_TRUNC != 0 {
			fs.used -= int64(len(n.data))
			n.data = nil
		}
	}
	// lowest free descriptor, as the kernel does: a descriptor closed twice closes whatever was opened in between
	fd := fs.nextFD + 1
	for fs.handles[fd] != nil {
		fd++
	}
	if fs.everFD[fd] {
		fs.Stats.FdReuses++
	}
	fs.everFD[fd] = true
	h := &handle{n: n, path: path, gen: simrt.CurrentGen(), wr: wr}
	if flags&O_APPEND != 0 {
		h.pos = len(n.data)
	}
	fs.handles[fd] = h
	if a.Kill {
		fs.kill()
	}
	return fd, nil
}

func (fs *FS) h(fd int) *handle {
	h := fs.handles[fd]
	if h == nil || h.gen != simrt.CurrentGen() {
		return nil
	}
	return h
}

// PathOf returns the path a descriptor was opened with
func (fs *FS) PathOf(fd int) (string, bool) {
	h := fs.h(fd)
	if h == nil {
		return "", false
	}
	return h.path, true
}

// Write writes at the handle's position
func (fs *FS) Write(fd int, p []byte) (int, error) {
	path, _ := fs.PathOf(fd)
	a := fs.begin("write", path, len(p))
	h := fs.h(fd)
	if h == nil || !h.wr {
		return -1, syscall.EBADF
	}
	k := len(p)
	var err error
	if a.ShortSet && a.Short < k {
		k = a.Short
		if k < 0 {
			k = 0
		}
		fs.Stats.ShortWrites++
	}
	if a.Err != 0 && !a.ShortSet {
		k = 0
	}
	if fs.Capacity > 0 {
		grow := int64(h.pos+k) - int64(len(h.n.data))
		if grow > 0 && fs.used+grow > fs.Capacity {
			room := fs.Capacity - fs.used
			if room < 0 {
				room = 0
			}
			k2 := int(int64(len(h.n.data)) + room - int64(h.pos))
			if k2 < 0 {
				k2 = 0
			}
			if k2 < k {
				k = k2
				fs.Stats.ENOSPC++
				if k == 0 && err == nil && a.Err == 0 {
					err = syscall.ENOSPC
				}
			}
		}
	}
	if k > 0 {
		end := h.pos + k
		if end > len(h.n.data) {
			fs.used += int64(end - len(h.n.data))
			nd := make([]byte, end)
			copy(nd, h.n.data)
			h.n.data = nd
		}
		copy(h.n.data[h.pos:end], p[:k])
		h.pos = end
	}
	if a.Kill {
		fs.kill()
	}
	if a.Err != 0 && k == 0 {
		return -1, a.Err
	}
	if a.Err != 0 && a.ShortSet {
		// partial progress then error: write(2) reports the partial count first
		return k, nil
	}
	if err != nil {
		return -1, err
	}
	return k, nil
}

// Read reads from the handle's position
func (fs *FS) Read(fd int, p []byte) (int, error) {
	path, _ := fs.PathOf(fd)
	a := fs.begin("read", path, len(p))
	h := fs.h(fd)
	if h == nil {
		return -1, syscall.EBADF
	}
	if a.Err != 0 {
		return -1, a.Err
	}
	if h.n.dir {
		return -1, syscall.EISDIR
	}
	if h.n.Unreadable {
		return -1, syscall.EIO
	}
	k := copy(p, h.n.data[min(h.pos, len(h.n.data)):])
	if a.ShortSet && a.Short < k {
		k = a.Short
	}
	h.pos += k
	return k, nil
}

// Close closes a descriptor
func (fs *FS) Close(fd int) error {
	path, _ := fs.PathOf(fd)
	a := fs.begin("close", path, 0)
	if fs.h(fd) == nil {
		return syscall.EBADF
	}
	delete(fs.handles, fd)
	if a.Kill {
		fs.kill()
	}
	if a.Err != 0 {
		return a.Err
	}
	return nil
}

// StatInfo is what stat returns
type StatInfo struct {
	Size int64
	Mode uint32 // includes S_IFDIR / S_IFREG
	Dir  bool
}

const (
	S_IFDIR = 0o040000
	S_IFREG = 0o100000
)

func statOf(n *node) StatInfo {
	if n.dir {
		return StatInfo{Size: 4096, Mode: S_IFDIR | n.mode, Dir: true}
	}
	return StatInfo{Size: int64(len(n.data)), Mode: S_IFREG | n.mode}
}

// Stat stats a path
func (fs *FS) Stat(path string) (StatInfo, error) {
	a := fs.begin("stat", path, 0)
	if a.Err != 0 {
		return StatInfo{}, a.Err
	}
	n := fs.lookup(path)
	if n == nil {
		return StatInfo{}, syscall.ENOENT
	}
	return statOf(n), nil
}

// Fstat stats a descriptor
func (fs *FS) Fstat(fd int) (StatInfo, error) {
	path, _ := fs.PathOf(fd)
	a := fs.begin("stat", path, 0)
	h := fs.h(fd)
	if h == nil {
		return StatInfo{}, syscall.EBADF
	}
	if a.Err != 0 {
		return StatInfo{}, a.Err
	}
	return statOf(h.n), nil
}

// Unlink removes a file
func (fs *FS) Unlink(path string) error {
	a := fs.begin("unlink", path, 0)
	if a.Err != 0 {
		if a.Kill {
			fs.kill()
		}
		return a.Err
	}
	parent, name := fs.parentOf(path)
	if parent == nil || parent.children[name] == nil {
		return syscall.ENOENT
	}
	n := parent.children[name]
	if n.dir {
		if len(n.children) > 0 {
			return syscall.ENOTEMPTY
		}
	} else {
		fs.used -= int64(len(n.data))
	}
	parent.delChild(name)
	if a.Kill {
		fs.kill()
	}
	return nil
}

// Rename renames a file atomically (replacing the target)
func (fs *FS) Rename(oldp, newp string) error {
	a := fs.begin("rename", oldp+" -> "+newp, 0)
	if a.Err != 0 {
		if a.Kill {
			fs.kill()
		}
		return a.Err
	}
	op, on := fs.parentOf(oldp)
	np, nn := fs.parentOf(newp)
	if op == nil || np == nil || op.children[on] == nil {
		return syscall.ENOENT
	}
	n := op.children[on]
	if t := np.children[nn]; t != nil {
		if t.dir {
			return syscall.EISDIR
		}
		fs.used -= int64(len(t.data))
		np.delChild(nn)
	}
	op.delChild(on)
	n.name = nn
	np.addChild(n)
	if a.Kill {
		fs.kill()
	}
	return nil
}

// Fsync is a no-op in the process-kill crash model (still a fault point)
func (fs *FS) Fsync(fd int) error {
	path, _ := fs.PathOf(fd)
	a := fs.begin("fsync", path, 0)
	if fs.h(fd) == nil {
		return syscall.EBADF
	}
	if a.Kill {
		fs.kill()
	}
	if a.Err != 0 {
		return a.Err
	}
	return nil
}

// Truncate sets the length of an open file
func (fs *FS) Truncate(fd int, size int64) error {
	path, _ := fs.PathOf(fd)
	a := fs.begin("truncate", path, 0)
	h := fs.h(fd)
	if h == nil || !h.wr {
		return syscall.EBADF
	}
	if a.Err != 0 {
		return a.Err
	}
	fs.used += size - int64(len(h.n.data))
	nd := make([]byte, size)
	copy(nd, h.n.data)
	h.n.data = nd
	return nil
}

// Seek sets the position of a descriptor (files) or rewinds a directory
func (fs *FS) Seek(fd int, off int64, whence int) (int64, error) {
	h := fs.h(fd)
	if h == nil {
		return -1, syscall.EBADF
	}
	if h.n.dir {
		if off == 0 && whence == 0 {
			h.dirPos = 0
			return 0, nil
		}
		return -1, syscall.EINVAL
	}
	switch whence {
	case 0:
		h.pos = int(off)
	case 1:
		h.pos += int(off)
	case 2:
		h.pos = len(h.n.data) + int(off)
	}
	return int64(h.pos), nil
}

// Readdirnames lists the remaining entries of an open directory in an unsorted, decision-scrambled order
func (fs *FS) Readdirnames(fd int) ([]string, error) {
	path, _ := fs.PathOf(fd)
	a := fs.begin("readdir", path, 0)
	h := fs.h(fd)
	if h == nil {
		return nil, syscall.EBADF
	}
	if a.Err != 0 {
		return nil, a.Err
	}
	if !h.n.dir {
		return nil, syscall.ENOTDIR
	}
	if h.dirPos > 0 {
		return nil, nil
	}
	h.dirPos = 1
	names := append([]string(nil), h.n.order...)
	if n := len(names); n > 1 {
		r := simrt.Choose(n)
		names = append(names[r:], names[:r]...)
		if simrt.Choose(2) == 1 {
			for i, j := 0, n-1; i < j; i, j = i+1, j-1 {
				names[i], names[j] = names[j], names[i]
			}
		}
	}
	return names, nil
}

// --- harness-side inspection (no scheduling points, no faults) ---

// Files returns path -> contents of every regular file under dir (recursive)
func (fs *FS) Files(dir string) map[string][]byte {
	out := map[string][]byte{}
	n := fs.lookup(dir)
	if n == nil {
		return out
	}
	var rec func(n *node, p string)
	rec = func(n *node, p string) {
		if !n.dir {
			out[p] = append([]byte(nil), n.data...)
			return
		}
		for _, name := range n.order {
			rec(n.children[name], p+"/"+name)
		}
	}
	rec(n, strings.TrimSuffix(dir, "/"))
	return out
}

// Dirs returns the sorted names of the sub-directories of dir
func (fs *FS) Dirs(dir string) []string {
	n := fs.lookup(dir)
	if n == nil {
		return nil
	}
	var out []string
	for name, c := range n.children {
		if c.dir {
			out = append(out, name)
		}
	}
	sort.Strings(out)
	return out
}

// Node flags
func (fs *FS) SetUnreadable(path string, v bool) bool {
	if n := fs.lookup(path); n != nil {
		n.Unreadable = v
		return true
	}
	return false
}

// SetUnusable marks a directory as not openable / not writable
func (fs *FS) SetUnusable(path string, v bool) bool {
	if n := fs.lookup(path); n != nil {
		n.Unusable = v
		return true
	}
	return false
}

// PutFile creates or replaces a file directly (harness set-up of damaged files)
func (fs *FS) PutFile(path string, data []byte) {
	parent, name := fs.parentOf(path)
	if parent == nil {
		panic("simfs.PutFile: no parent for " + path)
	}
	if old := parent.children[name]; old != nil {
		fs.used -= int64(len(old.data))
		parent.delChild(name)
	}
	parent.addChild(&node{name: name, data: append([]byte(nil), data...), mode: 0o644})
	fs.used += int64(len(data))
}

// MkdirAllRaw creates directories without scheduling or faults (harness set-up)
func (fs *FS) MkdirAllRaw(path string) {
	n := fs.root
	for _, p := range split(path) {
		c := n.children[p]
		if c == nil {
			c = &node{name: p, dir: true, children: map[string]*node{}, mode: 0o755}
			n.addChild(c)
		}
		n = c
	}
}

// Used returns the bytes stored in regular files
func (fs *FS) Used() int64 { return fs.used }

// OpCount returns the number of operations so far
func (fs *FS) OpCount() int { return fs.opIdx }

// DropHandlesOf invalidates the descriptors of a generation (graceful process exit)
func (fs *FS) DropHandlesOf(gen int) {
	for fd, h := range fs.handles {
		if h.gen == gen {
			delete(fs.handles, fd)
		}
	}
}

// Getxattr / Setxattr
func (fs *FS) Getxattr(path, name string) ([]byte, error) {
	n := fs.lookup(path)
	if n == nil {
		return nil, syscall.ENOENT
	}
	v, ok := n.xattrs[name]
	if !ok {
		return nil, syscall.ENODATA
	}
	return v, nil
}
