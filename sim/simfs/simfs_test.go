package simfs

import (
	"bytes"
	"sort"
	"syscall"
	"testing"
)

// These tests pin the points of the disk model the system under test depends on. They run outside a simulation
// (simrt's yields are no-ops without an active scheduler).

const dir = Prefix + "/q"

func newFS(t *testing.T) *FS {
	t.Helper()
	fs := Reset()
	if err := fs.MkdirAll(dir, 0o755); err != nil {
		t.Fatal(err)
	}
	return fs
}

func mustWrite(t *testing.T, fs *FS, path string, flags int, data []byte) {
	t.Helper()
	fd, err := fs.Open(path, flags, 0o644)
	if err != nil {
		t.Fatalf("open %s: %v", path, err)
	}
	if n, err := fs.Write(fd, data); err != nil || n != len(data) {
		t.Fatalf("write %s: n=%d err=%v", path, n, err)
	}
	if err := fs.Close(fd); err != nil {
		t.Fatal(err)
	}
}

func TestCreateWriteReadBack(t *testing.T) {
	fs := newFS(t)
	mustWrite(t, fs, dir+"/a", O_WRONLY|O_CREAT|O_TRUNC, []byte("hello"))
	fd, err := fs.Open(dir+"/a", O_RDONLY, 0)
	if err != nil {
		t.Fatal(err)
	}
	buf := make([]byte, 16)
	n, err := fs.Read(fd, buf)
	if err != nil || string(buf[:n]) != "hello" {
		t.Fatalf("read: %q %v", buf[:n], err)
	}
	if n, _ := fs.Read(fd, buf); n != 0 {
		t.Fatalf("second read should hit EOF, got %d bytes", n)
	}
	st, err := fs.Stat(dir + "/a")
	if err != nil || st.Size != 5 || st.Dir {
		t.Fatalf("stat: %+v %v", st, err)
	}
	if fs.Used() != 5 {
		t.Fatalf("used=%d", fs.Used())
	}
}

func TestOpenErrors(t *testing.T) {
	fs := newFS(t)
	if _, err := fs.Open(dir+"/missing", O_RDONLY, 0); err != syscall.ENOENT {
		t.Fatalf("missing file: %v", err)
	}
	if _, err := fs.Open(Prefix+"/nodir/x", O_WRONLY|O_CREAT, 0o644); err != syscall.ENOENT {
		t.Fatalf("missing parent: %v", err)
	}
	mustWrite(t, fs, dir+"/a", O_WRONLY|O_CREAT, []byte("x"))
	if _, err := fs.Open(dir+"/a", O_WRONLY|O_CREAT|O_EXCL, 0o644); err != syscall.EEXIST {
		t.Fatalf("O_EXCL on existing: %v", err)
	}
	if _, err := fs.Open(dir, O_WRONLY, 0); err != syscall.EISDIR {
		t.Fatalf("write-open of a directory: %v", err)
	}
	fs.SetUnusable(dir, true)
	if _, err := fs.Open(dir+"/b", O_WRONLY|O_CREAT, 0o644); err != syscall.EACCES {
		t.Fatalf("create in unusable dir: %v", err)
	}
}

func TestTruncateOnOpenReleasesSpace(t *testing.T) {
	fs := newFS(t)
	mustWrite(t, fs, dir+"/a", O_WRONLY|O_CREAT, []byte("0123456789"))
	mustWrite(t, fs, dir+"/a", O_WRONLY|O_CREAT|O_TRUNC, []byte("ab"))
	if got := fs.Files(dir)[dir+"/a"]; string(got) != "ab" {
		t.Fatalf("content %q", got)
	}
	if fs.Used() != 2 {
		t.Fatalf("used=%d", fs.Used())
	}
	// without O_TRUNC the old tail stays (what an in-place rewrite of a shorter chunk would leave behind)
	mustWrite(t, fs, dir+"/b", O_WRONLY|O_CREAT, []byte("0123456789"))
	mustWrite(t, fs, dir+"/b", O_WRONLY, []byte("ab"))
	if got := fs.Files(dir)[dir+"/b"]; string(got) != "ab23456789" {
		t.Fatalf("content %q", got)
	}
}

func TestRenameReplacesAtomically(t *testing.T) {
	fs := newFS(t)
	mustWrite(t, fs, dir+"/x.tmp", O_WRONLY|O_CREAT, []byte("new"))
	mustWrite(t, fs, dir+"/x", O_WRONLY|O_CREAT, []byte("older"))
	if err := fs.Rename(dir+"/x.tmp", dir+"/x"); err != nil {
		t.Fatal(err)
	}
	files := fs.Files(dir)
	if len(files) != 1 || string(files[dir+"/x"]) != "new" {
		t.Fatalf("files: %v", files)
	}
	if fs.Used() != 3 {
		t.Fatalf("used=%d", fs.Used())
	}
	if err := fs.Rename(dir+"/nope", dir+"/y"); err != syscall.ENOENT {
		t.Fatalf("rename of missing file: %v", err)
	}
}

func TestUnlink(t *testing.T) {
	fs := newFS(t)
	mustWrite(t, fs, dir+"/a", O_WRONLY|O_CREAT, []byte("abc"))
	if err := fs.Unlink(dir); err != syscall.ENOTEMPTY {
		t.Fatalf("unlink of non-empty dir: %v", err)
	}
	if err := fs.Unlink(dir + "/a"); err != nil {
		t.Fatal(err)
	}
	if err := fs.Unlink(dir + "/a"); err != syscall.ENOENT {
		t.Fatalf("second unlink: %v", err)
	}
	if fs.Used() != 0 {
		t.Fatalf("used=%d", fs.Used())
	}
}

func TestShortWriteWithNilError(t *testing.T) {
	fs := newFS(t)
	fs.Hook = func(op Op) Action {
		if op.Kind == "write" {
			return Action{Short: 3, ShortSet: true}
		}
		return Action{}
	}
	fd, _ := fs.Open(dir+"/a", O_WRONLY|O_CREAT, 0o644)
	n, err := fs.Write(fd, []byte("0123456789"))
	if n != 3 || err != nil {
		t.Fatalf("short write: n=%d err=%v", n, err)
	}
	if fs.Stats.ShortWrites != 1 {
		t.Fatalf("short writes counted: %d", fs.Stats.ShortWrites)
	}
	fs.Hook = nil
	// the caller's loop continues at the handle's position
	if n, err := fs.Write(fd, []byte("3456789")); n != 7 || err != nil {
		t.Fatalf("rest: n=%d err=%v", n, err)
	}
	if got := fs.Files(dir)[dir+"/a"]; string(got) != "0123456789" {
		t.Fatalf("content %q", got)
	}
}

func TestErrorAfterPartialProgress(t *testing.T) {
	fs := newFS(t)
	fs.Hook = func(op Op) Action {
		if op.Kind == "write" {
			return Action{Short: 4, ShortSet: true, Err: syscall.ENOSPC}
		}
		return Action{}
	}
	fd, _ := fs.Open(dir+"/a", O_WRONLY|O_CREAT, 0o644)
	// write(2) reports the partial count first; the error comes with the next call
	if n, err := fs.Write(fd, []byte("0123456789")); n != 4 || err != nil {
		t.Fatalf("n=%d err=%v", n, err)
	}
	fs.Hook = func(op Op) Action {
		if op.Kind == "write" {
			return Action{Err: syscall.ENOSPC}
		}
		return Action{}
	}
	if n, err := fs.Write(fd, []byte("456789")); n != -1 || err != syscall.ENOSPC {
		t.Fatalf("n=%d err=%v", n, err)
	}
	if got := fs.Files(dir)[dir+"/a"]; string(got) != "0123" {
		t.Fatalf("content %q", got)
	}
}

func TestCapacity(t *testing.T) {
	fs := newFS(t)
	fs.Capacity = 8
	fd, _ := fs.Open(dir+"/a", O_WRONLY|O_CREAT, 0o644)
	if n, err := fs.Write(fd, []byte("0123456789")); n != 8 || err != nil {
		t.Fatalf("partial up to capacity: n=%d err=%v", n, err)
	}
	if n, err := fs.Write(fd, []byte("89")); n != -1 || err != syscall.ENOSPC {
		t.Fatalf("full disk: n=%d err=%v", n, err)
	}
	_ = fs.Close(fd)
	if err := fs.Unlink(dir + "/a"); err != nil {
		t.Fatal(err)
	}
	mustWrite(t, fs, dir+"/b", O_WRONLY|O_CREAT, []byte("01234567"))
}

func TestInjectedErrorsAreCounted(t *testing.T) {
	fs := newFS(t)
	fs.Hook = func(op Op) Action {
		if op.Kind == "create" {
			return Action{Err: syscall.EDQUOT}
		}
		return Action{}
	}
	if _, err := fs.Open(dir+"/a", O_WRONLY|O_CREAT, 0o644); err != syscall.EDQUOT {
		t.Fatalf("err=%v", err)
	}
	if len(fs.Files(dir)) != 0 {
		t.Fatal("a failed create must not leave a file")
	}
	if fs.Stats.ErrInjected["create:"+syscall.EDQUOT.Error()] != 1 {
		t.Fatalf("stats: %v", fs.Stats.ErrInjected)
	}
}

func TestUnreadableFile(t *testing.T) {
	fs := newFS(t)
	mustWrite(t, fs, dir+"/a", O_WRONLY|O_CREAT, []byte("abc"))
	if !fs.SetUnreadable(dir+"/a", true) {
		t.Fatal("SetUnreadable")
	}
	fd, err := fs.Open(dir+"/a", O_RDONLY, 0)
	if err != nil {
		t.Fatal(err)
	}
	if _, err := fs.Read(fd, make([]byte, 4)); err != syscall.EIO {
		t.Fatalf("read of unreadable file: %v", err)
	}
}

func TestReaddirListsEverythingOnce(t *testing.T) {
	fs := newFS(t)
	want := []string{"c", "a", "b", "d"}
	for _, n := range want {
		mustWrite(t, fs, dir+"/"+n, O_WRONLY|O_CREAT, []byte(n))
	}
	fd, _ := fs.Open(dir, O_RDONLY, 0)
	got, err := fs.Readdirnames(fd)
	if err != nil {
		t.Fatal(err)
	}
	sort.Strings(got)
	sort.Strings(want)
	if !bytes.Equal([]byte(joinNames(got)), []byte(joinNames(want))) {
		t.Fatalf("names %v", got)
	}
	// the listing is consumed: a second call returns nothing until the directory is rewound
	if more, _ := fs.Readdirnames(fd); len(more) != 0 {
		t.Fatalf("second listing returned %v", more)
	}
	if _, err := fs.Seek(fd, 0, 0); err != nil {
		t.Fatal(err)
	}
	if again, _ := fs.Readdirnames(fd); len(again) != 4 {
		t.Fatalf("after rewind: %v", again)
	}
}

func joinNames(s []string) string {
	out := ""
	for _, x := range s {
		out += x + ","
	}
	return out
}

func TestPutFileAndFilesAreHarnessSide(t *testing.T) {
	fs := newFS(t)
	ops := fs.OpCount()
	fs.PutFile(dir+"/planted.ff", nil)
	fs.MkdirAllRaw(dir + "/sub")
	if fs.OpCount() != ops {
		t.Fatal("harness-side helpers must not be fault points")
	}
	files := fs.Files(dir)
	if d, ok := files[dir+"/planted.ff"]; !ok || len(d) != 0 {
		t.Fatalf("files: %v", files)
	}
}
