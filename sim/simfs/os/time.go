package os

import "time"

type timeT = time.Time
