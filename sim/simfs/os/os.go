// Package os is the simulator's façade for package os in the disk-touching files of slog-agent. Paths under
// simfs.Prefix live in the simulated tree; anything else passes through to the real package (read-only use).
package os

import (
	"io"
	"io/fs"
	ros "os"
	"path/filepath"
	"sort"
	"syscall"

	"verif.local/sim/simfs"
)

type (
	FileMode  = fs.FileMode
	FileInfo  = fs.FileInfo
	DirEntry  = fs.DirEntry
	PathError = fs.PathError
	Signal    = ros.Signal
)

const (
	O_RDONLY = ros.O_RDONLY
	O_WRONLY = ros.O_WRONLY
	O_RDWR   = ros.O_RDWR
	O_APPEND = ros.O_APPEND
	O_CREATE = ros.O_CREATE
	O_EXCL   = ros.O_EXCL
	O_SYNC   = ros.O_SYNC
	O_TRUNC  = ros.O_TRUNC

	ModePerm = fs.ModePerm
	ModeDir  = fs.ModeDir
)

var (
	ErrNotExist         = fs.ErrNotExist
	ErrExist            = fs.ErrExist
	ErrPermission       = fs.ErrPermission
	ErrClosed           = fs.ErrClosed
	ErrDeadlineExceeded = ros.ErrDeadlineExceeded
	Stdout              = ros.Stdout
	Stderr              = ros.Stderr
	Stdin               = ros.Stdin
	Args                = ros.Args
)

func IsNotExist(err error) bool   { return ros.IsNotExist(err) }
func IsExist(err error) bool      { return ros.IsExist(err) }
func IsPermission(err error) bool { return ros.IsPermission(err) }
func ExpandEnv(s string) string   { return ros.ExpandEnv(s) }
func Getenv(k string) string      { return ros.Getenv(k) }
func LookupEnv(k string) (string, bool) {
	return ros.LookupEnv(k)
}
func Getpid() int               { return 4242 }
func Exit(code int)             { ros.Exit(code) }
func Hostname() (string, error) { return "simhost", nil }
func TempDir() string           { return simfs.Prefix + "/tmp" }

func toSim(flag int) int {
	out := flag & 3
	if flag&ros.O_CREATE != 0 {
		out |= simfs.O_CREAT
	}
	if flag&ros.O_EXCL != 0 {
		out |= simfs.O_EXCL
	}
	if flag&ros.O_TRUNC != 0 {
		out |= simfs.O_TRUNC
	}
	if flag&ros.O_APPEND != 0 {
		out |= simfs.O_APPEND
	}
	return out
}

func perr(op, path string, err error) error {
	if err == nil {
		return nil
	}
	return &fs.PathError{Op: op, Path: path, Err: err}
}

// File is os.File for simulated paths (or a wrapper of a real file for pass-through paths)
type File struct {
	fd   int
	name string
	real *ros.File
}

func Open(name string) (*File, error) { return OpenFile(name, O_RDONLY, 0) }

func Create(name string) (*File, error) {
	return OpenFile(name, O_RDWR|O_CREATE|O_TRUNC, 0o666)
}

func OpenFile(name string, flag int, perm FileMode) (*File, error) {
	if !simfs.IsSim(name) {
		f, err := ros.OpenFile(name, flag, perm)
		if err != nil {
			return nil, err
		}
		return &File{real: f, name: name}, nil
	}
	fd, err := simfs.Cur.Open(filepath.Clean(name), toSim(flag), uint32(perm))
	if err != nil {
		return nil, perr("open", name, err)
	}
	return &File{fd: fd, name: name}, nil
}

func (f *File) Fd() uintptr {
	if f.real != nil {
		return f.real.Fd()
	}
	return uintptr(f.fd)
}
func (f *File) Name() string { return f.name }

func (f *File) Close() error {
	if f == nil {
		return ros.ErrInvalid
	}
	if f.real != nil {
		return f.real.Close()
	}
	return perr("close", f.name, simfs.Cur.Close(f.fd))
}

func (f *File) Seek(offset int64, whence int) (int64, error) {
	if f.real != nil {
		return f.real.Seek(offset, whence)
	}
	n, err := simfs.Cur.Seek(f.fd, offset, whence)
	return n, perr("seek", f.name, err)
}

func (f *File) Readdirnames(n int) ([]string, error) {
	if f.real != nil {
		return f.real.Readdirnames(n)
	}
	names, err := simfs.Cur.Readdirnames(f.fd)
	if err != nil {
		return nil, perr("readdirent", f.name, err)
	}
	if n > 0 && len(names) == 0 {
		return nil, io.EOF
	}
	return names, nil
}

func (f *File) Write(p []byte) (int, error) {
	if f.real != nil {
		return f.real.Write(p)
	}
	total := 0
	for total < len(p) {
		n, err := simfs.Cur.Write(f.fd, p[total:])
		if err != nil {
			return total, perr("write", f.name, err)
		}
		if n == 0 {
			return total, perr("write", f.name, io.ErrShortWrite)
		}
		total += n
	}
	return total, nil
}

func (f *File) WriteString(s string) (int, error) { return f.Write([]byte(s)) }

func (f *File) Read(p []byte) (int, error) {
	if f.real != nil {
		return f.real.Read(p)
	}
	n, err := simfs.Cur.Read(f.fd, p)
	if err != nil {
		return 0, perr("read", f.name, err)
	}
	if n == 0 && len(p) > 0 {
		return 0, io.EOF
	}
	return n, nil
}

func (f *File) Sync() error {
	if f.real != nil {
		return f.real.Sync()
	}
	return perr("sync", f.name, simfs.Cur.Fsync(f.fd))
}

func (f *File) Truncate(size int64) error {
	if f.real != nil {
		return f.real.Truncate(size)
	}
	return perr("truncate", f.name, simfs.Cur.Truncate(f.fd, size))
}

type fileInfo struct {
	name string
	st   simfs.StatInfo
}

func (fi fileInfo) Name() string { return fi.name }
func (fi fileInfo) Size() int64  { return fi.st.Size }
func (fi fileInfo) Mode() fs.FileMode {
	m := fs.FileMode(fi.st.Mode & 0o777)
	if fi.st.Dir {
		m |= fs.ModeDir
	}
	return m
}
func (fi fileInfo) ModTime() (t timeT) { return }
func (fi fileInfo) IsDir() bool        { return fi.st.Dir }
func (fi fileInfo) Sys() any           { return nil }

func (f *File) Stat() (FileInfo, error) {
	if f.real != nil {
		return f.real.Stat()
	}
	st, err := simfs.Cur.Fstat(f.fd)
	if err != nil {
		return nil, perr("stat", f.name, err)
	}
	return fileInfo{filepath.Base(f.name), st}, nil
}

func Stat(name string) (FileInfo, error) {
	if !simfs.IsSim(name) {
		return ros.Stat(name)
	}
	st, err := simfs.Cur.Stat(filepath.Clean(name))
	if err != nil {
		return nil, perr("stat", name, err)
	}
	return fileInfo{filepath.Base(name), st}, nil
}

func Lstat(name string) (FileInfo, error) { return Stat(name) }

// ReadDir of package os sorts by file name
func ReadDir(name string) ([]DirEntry, error) {
	if !simfs.IsSim(name) {
		return ros.ReadDir(name)
	}
	f, err := Open(name)
	if err != nil {
		return nil, err
	}
	defer f.Close()
	ents, err := f.ReadDir(-1)
	sort.Slice(ents, func(i, j int) bool { return ents[i].Name() < ents[j].Name() })
	return ents, err
}

type dirEntry struct{ fi fileInfo }

func (d dirEntry) Name() string               { return d.fi.name }
func (d dirEntry) IsDir() bool                { return d.fi.st.Dir }
func (d dirEntry) Type() fs.FileMode          { return d.fi.Mode().Type() }
func (d dirEntry) Info() (fs.FileInfo, error) { return d.fi, nil }

// ReadDir of *os.File returns the entries in directory order (NOT sorted), like Readdirnames
func (f *File) ReadDir(n int) ([]DirEntry, error) {
	if f.real != nil {
		return f.real.ReadDir(n)
	}
	names, err := f.Readdirnames(n)
	if err != nil {
		return nil, err
	}
	ents := make([]DirEntry, 0, len(names))
	for _, nm := range names {
		st, err := simfs.Cur.Stat(filepath.Join(filepath.Clean(f.name), nm))
		if err != nil {
			continue // removed in between
		}
		ents = append(ents, dirEntry{fileInfo{nm, st}})
	}
	return ents, nil
}

// Readdir is the FileInfo flavour of ReadDir
func (f *File) Readdir(n int) ([]FileInfo, error) {
	if f.real != nil {
		return f.real.Readdir(n)
	}
	ents, err := f.ReadDir(n)
	if err != nil {
		return nil, err
	}
	out := make([]FileInfo, 0, len(ents))
	for _, e := range ents {
		fi, _ := e.Info()
		out = append(out, fi)
	}
	return out, nil
}

func MkdirAll(path string, perm FileMode) error {
	if !simfs.IsSim(path) {
		return perr("mkdir", path, syscall.EROFS)
	}
	return perr("mkdir", path, simfs.Cur.MkdirAll(filepath.Clean(path), uint32(perm)))
}

func Mkdir(path string, perm FileMode) error { return MkdirAll(path, perm) }

func WriteFile(name string, data []byte, perm FileMode) error {
	f, err := OpenFile(name, O_WRONLY|O_CREATE|O_TRUNC, perm)
	if err != nil {
		return err
	}
	_, err = f.Write(data)
	if err1 := f.Close(); err1 != nil && err == nil {
		err = err1
	}
	return err
}

func ReadFile(name string) ([]byte, error) {
	if !simfs.IsSim(name) {
		return ros.ReadFile(name)
	}
	f, err := Open(name)
	if err != nil {
		return nil, err
	}
	defer f.Close()
	st, err := simfs.Cur.Fstat(f.fd)
	if err != nil {
		return nil, perr("stat", name, err)
	}
	buf := make([]byte, st.Size)
	n, err := simfs.Cur.Read(f.fd, buf)
	if err != nil {
		return nil, perr("read", name, err)
	}
	return buf[:n], nil
}

func Remove(name string) error {
	if !simfs.IsSim(name) {
		return perr("remove", name, syscall.EROFS)
	}
	return perr("remove", name, simfs.Cur.Unlink(filepath.Clean(name)))
}

func Rename(oldpath, newpath string) error {
	if !simfs.IsSim(oldpath) || !simfs.IsSim(newpath) {
		return perr("rename", oldpath, syscall.EROFS)
	}
	return perr("rename", oldpath, simfs.Cur.Rename(filepath.Clean(oldpath), filepath.Clean(newpath)))
}
