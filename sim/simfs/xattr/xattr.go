// Package xattr is the simulator's façade for github.com/pkg/xattr
package xattr

import (
	"path/filepath"

	"verif.local/sim/simfs"
)

// Get is xattr.Get
func Get(path, name string) ([]byte, error) {
	return simfs.Cur.Getxattr(filepath.Clean(path), name)
}
