// Package simnet is the simulator's in-memory TCP. It replaces package net in instrumented code and is
// also the harness's client/server API. Each direction of a connection is a bounded queue of written
// segments; the simulator owns read segmentation, latency, connect outcomes, resets, half-close and
// descriptor numbers (lowest free first, released at Close, like the kernel). Errors are the real net
// error types so that util.IsNetworkClosed/IsNetworkTimeout, fluentlib and msgpack see what they would
// see on a real socket.
package simnet

import (
	"errors"
	"fmt"
	"io"
	"net"
	"os"
	"sort"
	"strconv"
	"syscall"
	"time"

	"verif.local/sim/simrt"
)

// aliases so that instrumented code type-checks unchanged
type (
	Addr     = net.Addr
	Conn     = net.Conn
	Error    = net.Error
	OpError  = net.OpError
	Listener = net.Listener
	Dialer   = net.Dialer
	IP       = net.IP
	TCPAddr  = net.TCPAddr
	IPNet    = net.IPNet
)

var (
	ErrClosed     = net.ErrClosed
	SplitHostPort = net.SplitHostPort
	JoinHostPort  = net.JoinHostPort
	ParseIP       = net.ParseIP
)

// DialKind is the outcome of a connection attempt
type DialKind int

const (
	DialAccept DialKind = iota
	DialRefuse
	DialTimeout_
)

// DialOutcome is decided by the listening side's script at the moment of the dial
type DialOutcome struct {
	Kind  DialKind
	Delay time.Duration // latency before the dialer sees the outcome
}

// Stats counts what the network did in this run
type Stats struct {
	AcceptErrors                           int
	Dials, Refused, DialTimeouts, Accepted int
	Reads, Writes, PartialWrites           int
	ReadTimeouts, WriteTimeouts            int
	ExpiredDeadlineReadsWithDataWaiting    int // reads issued with a deadline already in the past although data was waiting
	Resets, FdReuses, AbortiveCloses       int
	BytesRead                              map[string]int
}

// World is the network of one run
type World struct {
	listeners map[string]*TCPListener
	nextPort  int
	fds       map[int]bool
	everUsed  map[int]bool
	fdBase    int
	Stats     Stats
	DefaultRx int
	conns     []*TCPConn
}

// W is the network of the current run
var W *World

// Reset creates a fresh network for a run
func Reset() *World {
	W = &World{listeners: map[string]*TCPListener{}, nextPort: 20000, fds: map[int]bool{}, everUsed: map[int]bool{}, fdBase: 7, DefaultRx: 64 << 10}
	W.Stats.BytesRead = map[string]int{}
	return W
}

func (w *World) allocFD() int {
	for fd := w.fdBase; ; fd++ {
		if !w.fds[fd] {
			w.fds[fd] = true
			if w.everUsed[fd] {
				w.Stats.FdReuses++
			}
			w.everUsed[fd] = true
			return fd
		}
	}
}

func (w *World) freeFD(fd int) {
	delete(w.fds, fd)
}

func normAddr(a string) string {
	h, p, err := net.SplitHostPort(a)
	if err != nil {
		return a
	}
	if h == "" || h == "localhost" || h == "0.0.0.0" || h == "::" {
		h = "127.0.0.1"
	}
	return net.JoinHostPort(h, p)
}

func tcpAddr(a string) *net.TCPAddr {
	h, p, _ := net.SplitHostPort(a)
	port, _ := strconv.Atoi(p)
	return &net.TCPAddr{IP: net.ParseIP(h), Port: port}
}

// TCPListener is a listening socket
type TCPListener struct {
	OnAccept func() syscall.Errno // fault hook: a non-zero errno makes this accept fail
	w        *World
	addr     string
	backlog  []*TCPConn
	closed   bool
	ev       chan struct{}
	fd       int
	// OnDial, if set, decides the outcome of each connection attempt (harness upstream scripts)
	OnDial func() DialOutcome
	// RxCap is the receive buffer size of accepted connections (0 = world default)
	RxCap int
	// SUT marks listeners opened by the system under test: their accepted sockets get descriptor numbers
	SUT bool
}

func (l *TCPListener) notify() {
	close(l.ev)
	l.ev = make(chan struct{})
}

// Listen is net.Listen
func Listen(network, address string) (net.Listener, error) {
	simrt.Yield("simnet.Listen")
	w := W
	if w == nil {
		return nil, errors.New("simnet: no world")
	}
	h, p, err := net.SplitHostPort(address)
	if err != nil {
		return nil, &net.OpError{Op: "listen", Net: network, Err: err}
	}
	if p == "0" || p == "" {
		w.nextPort++
		p = strconv.Itoa(w.nextPort)
	}
	a := normAddr(net.JoinHostPort(h, p))
	if _, dup := w.listeners[a]; dup {
		return nil, &net.OpError{Op: "listen", Net: network, Err: os.NewSyscallError("bind", syscall.EADDRINUSE)}
	}
	l := &TCPListener{w: w, addr: a, ev: make(chan struct{}), SUT: simrt.CurrentGen() != 0}
	if l.SUT {
		l.fd = w.allocFD()
	}
	w.listeners[a] = l
	return l, nil
}

// ListenHarness opens a harness-side listener (no descriptor numbers)
func ListenHarness(address string) *TCPListener {
	l, err := Listen("tcp", address)
	if err != nil {
		panic(err)
	}
	tl := l.(*TCPListener)
	if tl.SUT {
		tl.SUT = false
		tl.w.freeFD(tl.fd)
	}
	return tl
}

// Addr is net.Listener.Addr
func (l *TCPListener) Addr() net.Addr { return tcpAddr(l.addr) }

// Close is net.Listener.Close
func (l *TCPListener) Close() error {
	simrt.Yield("simnet.Listener.Close")
	if l.closed {
		return &net.OpError{Op: "close", Net: "tcp", Addr: l.Addr(), Err: net.ErrClosed}
	}
	l.closed = true
	delete(l.w.listeners, l.addr)
	if l.SUT {
		l.w.freeFD(l.fd)
	}
	// connections still in the backlog are reset, as the kernel does
	for _, c := range l.backlog {
		c.pair.reset()
	}
	l.backlog = nil
	l.notify()
	return nil
}

// Accept is net.Listener.Accept
func (l *TCPListener) Accept() (net.Conn, error) {
	c, err := l.AcceptTCP()
	if err != nil {
		return nil, err
	}
	return c, nil
}

// AcceptTCP is net.TCPListener.AcceptTCP
func (l *TCPListener) AcceptTCP() (*TCPConn, error) {
	simrt.Yield("simnet.Accept")
	for {
		if l.closed {
			return nil, &net.OpError{Op: "accept", Net: "tcp", Addr: l.Addr(), Err: net.ErrClosed}
		}
		if len(l.backlog) > 0 {
			if l.OnAccept != nil {
				// a failing accept(2): the connection stays in the backlog, as in the kernel (EMFILE, ENFILE, ENOBUFS) - for
				// ECONNABORTED the kernel drops it, which the harness models by resetting it in its hook
				if errno := l.OnAccept(); errno != 0 {
					l.w.Stats.AcceptErrors++
					return nil, &net.OpError{Op: "accept", Net: "tcp", Addr: l.Addr(), Err: os.NewSyscallError("accept4", errno)}
				}
			}
			c := l.backlog[0]
			l.backlog = l.backlog[1:]
			if l.SUT {
				c.fd = l.w.allocFD()
				c.hasFD = true
			}
			l.w.Stats.Accepted++
			return c, nil
		}
		simrt.Recv("simnet.Accept", l.ev)
	}
}

// Pending returns the number of connections waiting to be accepted
func (l *TCPListener) Pending() int { return len(l.backlog) }

type segment struct {
	data    []byte
	readyAt time.Time
}

// pair is one TCP connection
type pair struct {
	ev   chan struct{}
	a, b *TCPConn
	rst  bool
}

func (p *pair) notify() {
	close(p.ev)
	p.ev = make(chan struct{})
}

func (p *pair) reset() {
	if p.rst {
		return
	}
	p.rst = true
	p.a.rx, p.a.rxLen = nil, 0
	p.b.rx, p.b.rxLen = nil, 0
	p.notify()
}

// TCPConn is one endpoint of a connection
type TCPConn struct {
	w      *World
	pair   *pair
	peer   *TCPConn
	local  string
	remote string
	rx     []segment
	rxLen  int
	rxCap  int
	closed bool // local Close
	wrShut bool // CloseWrite: peer sees EOF after draining
	rdShut bool
	rdl    time.Time
	wdl    time.Time
	fd     int
	hasFD  bool
	// writes after the peer closed: the first one is swallowed, later ones fail (RST came back)
	deadWrites int

	// Label names the endpoint in statistics
	Label string
	// SegmentReads makes every Read return at most one written segment (harness controls fragmentation)
	SegmentReads bool
	// FragmentReads lets the decision stream cut every Read shorter
	FragmentReads bool
	// Latency delays delivery of data written TO this endpoint
	Latency time.Duration
	// BytesIn counts bytes returned by Read on this endpoint
	BytesIn int
	// OnRead, if set, observes every successful Read (harness history)
	OnRead func(p []byte)
}

func newPair(w *World, clientAddr, serverAddr string, rxCap int) (*TCPConn, *TCPConn) {
	p := &pair{ev: make(chan struct{})}
	c := &TCPConn{w: w, pair: p, local: clientAddr, remote: serverAddr, rxCap: rxCap}
	s := &TCPConn{w: w, pair: p, local: serverAddr, remote: clientAddr, rxCap: rxCap}
	c.peer, s.peer = s, c
	p.a, p.b = c, s
	w.conns = append(w.conns, c, s)
	return c, s
}

// DialTimeout is net.DialTimeout
func DialTimeout(network, address string, timeout time.Duration) (net.Conn, error) {
	c, err := dial(network, address, timeout)
	if err != nil {
		return nil, err
	}
	return c, nil
}

// Dial is net.Dial
func Dial(network, address string) (net.Conn, error) { return DialTimeout(network, address, 0) }

// Connect is the harness-side dial returning the concrete endpoint
func Connect(address string) (*TCPConn, error) { return dial("tcp", address, 0) }

func dial(network, address string, timeout time.Duration) (*TCPConn, error) {
	simrt.Yield("simnet.Dial")
	w := W
	w.Stats.Dials++
	a := normAddr(address)
	opErr := func(err error) error {
		return &net.OpError{Op: "dial", Net: network, Addr: tcpAddr(a), Err: err}
	}
	l := w.listeners[a]
	if l == nil || l.closed {
		w.Stats.Refused++
		return nil, opErr(os.NewSyscallError("connect", syscall.ECONNREFUSED))
	}
	out := DialOutcome{}
	if l.OnDial != nil {
		out = l.OnDial()
	}
	switch out.Kind {
	case DialRefuse:
		if out.Delay > 0 {
			simrt.Sleep("simnet.Dial", out.Delay)
		}
		w.Stats.Refused++
		return nil, opErr(os.NewSyscallError("connect", syscall.ECONNREFUSED))
	case DialTimeout_:
		w.Stats.DialTimeouts++
		if timeout <= 0 {
			timeout = 127 * time.Second // kernel SYN retry give-up
		}
		simrt.Sleep("simnet.Dial", timeout)
		return nil, opErr(os.ErrDeadlineExceeded)
	}
	if out.Delay > 0 {
		if timeout > 0 && out.Delay >= timeout {
			w.Stats.DialTimeouts++
			simrt.Sleep("simnet.Dial", timeout)
			return nil, opErr(os.ErrDeadlineExceeded)
		}
		simrt.Sleep("simnet.Dial", out.Delay)
		if l.closed {
			w.Stats.Refused++
			return nil, opErr(os.NewSyscallError("connect", syscall.ECONNREFUSED))
		}
	}
	w.nextPort++
	clientAddr := net.JoinHostPort("127.0.0.1", strconv.Itoa(w.nextPort))
	rx := l.RxCap
	if rx == 0 {
		rx = w.DefaultRx
	}
	c, s := newPair(w, clientAddr, a, rx)
	if simrt.CurrentGen() != 0 {
		c.fd = w.allocFD()
		c.hasFD = true
	}
	l.backlog = append(l.backlog, s)
	l.notify()
	return c, nil
}

func (c *TCPConn) opErr(op string, err error) error {
	return &net.OpError{Op: op, Net: "tcp", Source: tcpAddr(c.local), Addr: tcpAddr(c.remote), Err: err}
}

// Read is net.Conn.Read
func (c *TCPConn) Read(p []byte) (int, error) {
	simrt.Yield("simnet.Read")
	// a deadline that has already passed when the call is made fails the read at once, whether or not data is waiting (Go's
	// poller checks the deadline before it tries the system call); a deadline that expires while the call waits competes with
	// the arrival of data as before
	if !c.closed && !c.pair.rst && len(p) > 0 && !c.rdl.IsZero() && !c.rdl.After(time.Now()) {
		c.w.Stats.ReadTimeouts++
		if c.rxLen > 0 {
			c.w.Stats.ExpiredDeadlineReadsWithDataWaiting++
		}
		return 0, c.opErr("read", os.ErrDeadlineExceeded)
	}
	for {
		if c.closed {
			return 0, c.opErr("read", net.ErrClosed)
		}
		if c.pair.rst {
			return 0, c.opErr("read", os.NewSyscallError("read", syscall.ECONNRESET))
		}
		if len(p) == 0 {
			return 0, nil
		}
		now := time.Now()
		var wait time.Duration = -1
		if len(c.rx) > 0 {
			if !c.rx[0].readyAt.After(now) {
				n := c.take(p, now)
				c.w.Stats.Reads++
				c.BytesIn += n
				if c.Label != "" {
					c.w.Stats.BytesRead[c.Label] += n
				}
				if c.OnRead != nil {
					c.OnRead(p[:n])
				}
				c.pair.notify() // space for writers
				return n, nil
			}
			wait = c.rx[0].readyAt.Sub(now)
		} else if c.peer.closed || c.peer.wrShut || c.rdShut {
			return 0, io.EOF
		}
		if !c.rdl.IsZero() {
			d := c.rdl.Sub(now)
			if d <= 0 {
				c.w.Stats.ReadTimeouts++
				return 0, c.opErr("read", os.ErrDeadlineExceeded)
			}
			if wait < 0 || d < wait {
				wait = d
			}
		}
		c.waitEvent("simnet.Read", wait)
	}
}

func (c *TCPConn) take(p []byte, now time.Time) int {
	limit := len(p)
	if c.FragmentReads {
		avail := 0
		for _, s := range c.rx {
			if s.readyAt.After(now) {
				break
			}
			avail += len(s.data)
		}
		if avail < limit {
			limit = avail
		}
		if limit > 1 {
			// bias towards small and towards full
			switch simrt.Choose(4) {
			case 0:
				limit = 1 + simrt.Choose(min(limit, 8))
			case 1:
				limit = 1 + simrt.Choose(limit)
			}
		}
	}
	n := 0
	for n < limit && len(c.rx) > 0 && !c.rx[0].readyAt.After(now) {
		s := &c.rx[0]
		k := copy(p[n:limit], s.data)
		n += k
		c.rxLen -= k
		if k == len(s.data) {
			c.rx = c.rx[1:]
		} else {
			s.data = s.data[k:]
		}
		if c.SegmentReads {
			break
		}
	}
	return n
}

func (c *TCPConn) waitEvent(site string, d time.Duration) {
	if d < 0 {
		simrt.Recv(site, c.pair.ev)
		return
	}
	tm := time.NewTimer(d)
	simrt.Select(site, false, simrt.RecvCase(c.pair.ev), simrt.RecvCase(tm.C))
	tm.Stop()
}

// Write is net.Conn.Write
func (c *TCPConn) Write(p []byte) (int, error) {
	simrt.Yield("simnet.Write")
	written := 0
	for {
		if c.closed {
			return written, c.opErr("write", net.ErrClosed)
		}
		if c.wrShut {
			return written, c.opErr("write", os.NewSyscallError("write", syscall.EPIPE))
		}
		if c.pair.rst {
			return written, c.opErr("write", os.NewSyscallError("write", syscall.ECONNRESET))
		}
		if c.peer.closed || c.peer.rdShut {
			c.deadWrites++
			if c.deadWrites > 1 {
				return written, c.opErr("write", os.NewSyscallError("write", syscall.EPIPE))
			}
			c.w.Stats.Writes++
			return len(p), nil // swallowed: the RST has not come back yet
		}
		if len(p) == written {
			c.w.Stats.Writes++
			return written, nil
		}
		free := c.peer.rxCap - c.peer.rxLen
		if free > 0 {
			k := len(p) - written
			if k > free {
				k = free
				c.w.Stats.PartialWrites++
			}
			seg := segment{data: append([]byte(nil), p[written:written+k]...), readyAt: time.Now().Add(c.peer.Latency)}
			c.peer.rx = append(c.peer.rx, seg)
			c.peer.rxLen += k
			written += k
			c.pair.notify()
			continue
		}
		var wait time.Duration = -1
		if !c.wdl.IsZero() {
			wait = time.Until(c.wdl)
			if wait <= 0 {
				c.w.Stats.WriteTimeouts++
				return written, c.opErr("write", os.ErrDeadlineExceeded)
			}
		}
		c.waitEvent("simnet.Write", wait)
	}
}

// Close is net.Conn.Close
func (c *TCPConn) Close() error {
	simrt.Yield("simnet.Close")
	if c.closed {
		return c.opErr("close", net.ErrClosed)
	}
	c.closed = true
	if c.hasFD {
		c.w.freeFD(c.fd)
		c.hasFD = false
	}
	// unread data at close => the kernel sends RST instead of FIN
	if c.rxLen > 0 && !c.pair.rst {
		c.w.Stats.AbortiveCloses++
		c.pair.reset()
		return nil
	}
	c.pair.notify()
	return nil
}

// CloseWrite is net.TCPConn.CloseWrite
func (c *TCPConn) CloseWrite() error {
	simrt.Yield("simnet.CloseWrite")
	if c.closed {
		return c.opErr("close", net.ErrClosed)
	}
	c.wrShut = true
	c.pair.notify()
	return nil
}

// CloseRead is net.TCPConn.CloseRead
func (c *TCPConn) CloseRead() error {
	simrt.Yield("simnet.CloseRead")
	if c.closed {
		return c.opErr("close", net.ErrClosed)
	}
	c.rdShut = true
	c.pair.notify()
	return nil
}

// Reset aborts the connection: buffered data in both directions is lost, both sides see ECONNRESET
func (c *TCPConn) Reset() {
	simrt.Yield("simnet.Reset")
	if !c.pair.rst {
		c.w.Stats.Resets++
	}
	c.pair.reset()
}

// Peer returns the other endpoint of the connection (the harness configures the agent's side through it)
func (c *TCPConn) Peer() *TCPConn { return c.peer }

// IsClosed reports whether this endpoint was closed locally
func (c *TCPConn) IsClosed() bool { return c.closed }

// PeerClosed reports whether the other endpoint was closed or reset
func (c *TCPConn) PeerClosed() bool { return c.peer.closed || c.pair.rst }

// Buffered returns the number of bytes waiting to be read on this endpoint
func (c *TCPConn) Buffered() int { return c.rxLen }

// FD returns the descriptor number of this endpoint (0 if none)
func (c *TCPConn) FD() int {
	if c.hasFD {
		return c.fd
	}
	return 0
}

func (c *TCPConn) LocalAddr() net.Addr  { return tcpAddr(c.local) }
func (c *TCPConn) RemoteAddr() net.Addr { return tcpAddr(c.remote) }

func (c *TCPConn) SetDeadline(t time.Time) error {
	if c.closed {
		return c.opErr("set", net.ErrClosed)
	}
	c.rdl, c.wdl = t, t
	c.pair.notify()
	return nil
}

func (c *TCPConn) SetReadDeadline(t time.Time) error {
	if c.closed {
		return c.opErr("set", net.ErrClosed)
	}
	c.rdl = t
	c.pair.notify()
	return nil
}

func (c *TCPConn) SetWriteDeadline(t time.Time) error {
	if c.closed {
		return c.opErr("set", net.ErrClosed)
	}
	c.wdl = t
	c.pair.notify()
	return nil
}

func (c *TCPConn) SetKeepAlive(bool) error                { return c.closedErr() }
func (c *TCPConn) SetKeepAlivePeriod(time.Duration) error { return c.closedErr() }
func (c *TCPConn) SetNoDelay(bool) error                  { return c.closedErr() }
func (c *TCPConn) SetLinger(int) error                    { return c.closedErr() }
func (c *TCPConn) SetWriteBuffer(int) error               { return c.closedErr() }
func (c *TCPConn) SetReadBuffer(n int) error {
	if err := c.closedErr(); err != nil {
		return err
	}
	return nil
}

func (c *TCPConn) closedErr() error {
	if c.closed {
		return c.opErr("set", net.ErrClosed)
	}
	return nil
}

type rawConn struct{ c *TCPConn }

func (r rawConn) Control(f func(fd uintptr)) error {
	if r.c.closed || !r.c.hasFD {
		return r.c.opErr("raw-control", net.ErrClosed)
	}
	f(uintptr(r.c.fd))
	return nil
}
func (r rawConn) Read(func(fd uintptr) bool) error { return errors.New("simnet: raw read unsupported") }
func (r rawConn) Write(func(fd uintptr) bool) error {
	return errors.New("simnet: raw write unsupported")
}

// SyscallConn is net.TCPConn.SyscallConn
func (c *TCPConn) SyscallConn() (syscall.RawConn, error) {
	if c.closed {
		return nil, c.opErr("raw-control", net.ErrClosed)
	}
	return rawConn{c}, nil
}

// OpenFDs lists descriptor numbers currently in use (diagnostics / oracles)
func (w *World) OpenFDs() []int {
	var out []int
	for fd := range w.fds {
		out = append(out, fd)
	}
	sort.Ints(out)
	return out
}

// ListenerAt returns the listener bound to address
func (w *World) ListenerAt(address string) *TCPListener { return w.listeners[normAddr(address)] }

// ResetAllOf resets every connection with an endpoint whose generation tag matches (agent crash)
func (w *World) ResetAll(filter func(c *TCPConn) bool) {
	for _, c := range w.conns {
		if filter(c) && !c.pair.rst && !c.closed {
			c.pair.reset()
		}
	}
}

// ProcessDied is what the kernel does with the sockets of the system under test when its process is killed: its listeners are
// closed (the port becomes free, connections in the backlog are reset) and its connections are reset
func (w *World) ProcessDied() {
	var addrs []string
	for a, l := range w.listeners {
		if l.SUT && !l.closed {
			addrs = append(addrs, a)
		}
	}
	sort.Strings(addrs)
	for _, a := range addrs {
		l := w.listeners[a]
		l.closed = true
		delete(w.listeners, a)
		w.freeFD(l.fd)
		for _, c := range l.backlog {
			c.pair.reset()
		}
		l.backlog = nil
		l.notify()
	}
	for _, c := range w.conns {
		if c.hasFD && !c.closed {
			c.pair.reset()
			c.closed = true
			c.w.freeFD(c.fd)
			c.hasFD = false
		}
	}
}

func (c *TCPConn) String() string { return fmt.Sprintf("simconn(%s->%s)", c.local, c.remote) }
