package simnet

import (
	"errors"
	"io"
	"net"
	"os"
	"syscall"
	"testing"
	"time"

	"verif.local/sim/simrt"
)

// These tests pin the points of the network model the system under test depends on: error values, EOF and reset
// semantics, deadlines on the simulated clock, back-pressure by the receive window, lowest-free descriptor numbers.

func run(t *testing.T, seed uint64, driver func()) simrt.Result {
	t.Helper()
	res := simrt.Run(t, simrt.Config{Seed: seed, MaxSteps: 200000}, driver)
	if res.HarnessError != "" {
		t.Fatalf("harness error: %s", res.HarnessError)
	}
	if res.Crash != nil {
		t.Fatalf("goroutine %s panicked: %s\n%s", res.Crash.G, res.Crash.Value, res.Crash.Stack)
	}
	if res.Stuck {
		t.Fatalf("stuck: %s", res.StuckInfo)
	}
	return res
}

func TestDialRefusedWithoutListener(t *testing.T) {
	run(t, 1, func() {
		Reset()
		_, err := Connect("localhost:9")
		if !errors.Is(err, syscall.ECONNREFUSED) {
			t.Errorf("dial without listener: %v", err)
		}
		l := ListenHarness("localhost:9")
		_ = l.Close()
		if _, err := Connect("localhost:9"); !errors.Is(err, syscall.ECONNREFUSED) {
			t.Errorf("dial to closed listener: %v", err)
		}
	})
}

func TestBindTwice(t *testing.T) {
	run(t, 1, func() {
		Reset()
		ListenHarness("localhost:5140")
		if _, err := Listen("tcp", "localhost:5140"); !errors.Is(err, syscall.EADDRINUSE) {
			t.Errorf("second bind: %v", err)
		}
	})
}

func TestBytesArriveInOrderAndEOFAfterClose(t *testing.T) {
	run(t, 7, func() {
		Reset()
		l := ListenHarness("localhost:1000")
		var got []byte
		done := make(chan struct{})
		simrt.GoNamed("server", 0, func() {
			defer close(done)
			c, err := l.AcceptTCP()
			if err != nil {
				t.Errorf("accept: %v", err)
				return
			}
			buf := make([]byte, 7)
			for {
				n, err := c.Read(buf)
				got = append(got, buf[:n]...)
				if err == io.EOF {
					return
				}
				if err != nil {
					t.Errorf("read: %v", err)
					return
				}
			}
		})
		c, err := Connect("localhost:1000")
		if err != nil {
			t.Errorf("dial: %v", err)
			return
		}
		for _, s := range []string{"hello ", "simulated ", "world"} {
			if n, err := c.Write([]byte(s)); n != len(s) || err != nil {
				t.Errorf("write: %d %v", n, err)
			}
		}
		_ = c.Close()
		simrt.Recv("wait", done)
		if string(got) != "hello simulated world" {
			t.Errorf("received %q", got)
		}
	})
}

func TestReadDeadlineOnSimulatedClock(t *testing.T) {
	run(t, 3, func() {
		Reset()
		l := ListenHarness("localhost:1001")
		simrt.GoNamed("server", 0, func() {
			c, _ := l.AcceptTCP()
			simrt.Sleep("hold", time.Hour)
			_ = c.Close()
		})
		c, _ := Connect("localhost:1001")
		t0 := simrt.Now()
		_ = c.SetReadDeadline(time.Now().Add(90 * time.Second))
		_, err := c.Read(make([]byte, 1))
		var ne net.Error
		if !errors.As(err, &ne) || !ne.Timeout() || !errors.Is(err, os.ErrDeadlineExceeded) {
			t.Errorf("expected a timeout, got %v", err)
		}
		if d := simrt.Now() - t0; d != 90*time.Second {
			t.Errorf("the deadline fired after %v of simulated time", d)
		}
		// a deadline in the past fails at once, a cleared one blocks again until data arrives
		_ = c.SetReadDeadline(time.Now().Add(-time.Second))
		if _, err := c.Read(make([]byte, 1)); !errors.Is(err, os.ErrDeadlineExceeded) {
			t.Errorf("past deadline: %v", err)
		}
	})
}

func TestResetIsSeenByBothDirections(t *testing.T) {
	run(t, 5, func() {
		Reset()
		l := ListenHarness("localhost:1002")
		srvConn := make(chan *TCPConn, 1)
		simrt.GoNamed("server", 0, func() {
			c, _ := l.AcceptTCP()
			simrt.Send("hand over", srvConn, c)
		})
		c, _ := Connect("localhost:1002")
		s := simrt.Recv("get", srvConn)
		s.Reset()
		if _, err := c.Read(make([]byte, 1)); !errors.Is(err, syscall.ECONNRESET) {
			t.Errorf("read after reset: %v", err)
		}
		if _, err := c.Write([]byte("x")); err == nil {
			t.Errorf("write after reset must fail")
		}
	})
}

func TestUseOfClosedConnection(t *testing.T) {
	run(t, 5, func() {
		Reset()
		l := ListenHarness("localhost:1003")
		simrt.GoNamed("server", 0, func() { _, _ = l.AcceptTCP() })
		c, _ := Connect("localhost:1003")
		_ = c.Close()
		if _, err := c.Read(make([]byte, 1)); !errors.Is(err, net.ErrClosed) {
			t.Errorf("read on closed conn: %v", err)
		}
		if _, err := c.Write([]byte("x")); !errors.Is(err, net.ErrClosed) {
			t.Errorf("write on closed conn: %v", err)
		}
		if err := c.SetReadDeadline(time.Now()); !errors.Is(err, net.ErrClosed) {
			t.Errorf("deadline on closed conn: %v", err)
		}
	})
}

func TestWriterBlocksOnFullWindowUntilDeadline(t *testing.T) {
	run(t, 9, func() {
		Reset()
		l := ListenHarness("localhost:1004")
		l.RxCap = 100
		simrt.GoNamed("server", 0, func() {
			c, _ := l.AcceptTCP()
			simrt.Sleep("never reads", time.Hour)
			_ = c.Close()
		})
		c, _ := Connect("localhost:1004")
		_ = c.SetWriteDeadline(time.Now().Add(10 * time.Second))
		t0 := simrt.Now()
		n, err := c.Write(make([]byte, 1000))
		if !errors.Is(err, os.ErrDeadlineExceeded) {
			t.Errorf("expected a write timeout, got n=%d err=%v", n, err)
		}
		if n > 100 {
			t.Errorf("%d bytes were accepted by a window of 100", n)
		}
		if d := simrt.Now() - t0; d != 10*time.Second {
			t.Errorf("write deadline fired after %v", d)
		}
	})
}

func TestAcceptFailsAfterListenerClose(t *testing.T) {
	run(t, 2, func() {
		Reset()
		l := ListenHarness("localhost:1005")
		res := make(chan error, 1)
		simrt.GoNamed("acceptor", 0, func() {
			_, err := l.AcceptTCP()
			simrt.Send("result", res, err)
		})
		simrt.Sleep("let it block", time.Second)
		_ = l.Close()
		if err := simrt.Recv("get", res); !errors.Is(err, net.ErrClosed) {
			t.Errorf("accept after close: %v", err)
		}
	})
}

func TestLowestFreeDescriptorIsReused(t *testing.T) {
	run(t, 4, func() {
		w := Reset()
		a, b, c := w.allocFD(), w.allocFD(), w.allocFD()
		if !(a < b && b < c) {
			t.Errorf("descriptors not ascending: %d %d %d", a, b, c)
		}
		w.freeFD(b)
		if d := w.allocFD(); d != b {
			t.Errorf("expected the lowest free descriptor %d, got %d", b, d)
		}
		if w.Stats.FdReuses != 1 {
			t.Errorf("reuse not counted: %d", w.Stats.FdReuses)
		}
	})
}

func TestReadWithExpiredDeadlineFailsAtOnceEvenWithDataWaiting(t *testing.T) {
	run(t, 3, func() {
		w := Reset()
		l := ListenHarness("localhost:7001")
		c, err := Connect("localhost:7001")
		if err != nil {
			t.Fatal(err)
		}
		s, _ := l.AcceptTCP()
		if _, err := c.Write([]byte("hello")); err != nil {
			t.Fatal(err)
		}
		_ = s.SetReadDeadline(time.Now().Add(10 * time.Millisecond))
		simrt.Sleep("test", 50*time.Millisecond)
		buf := make([]byte, 16)
		// the deadline passed while nobody was reading: Go's poller fails the call before it looks at the socket
		if _, err := s.Read(buf); !errors.Is(err, os.ErrDeadlineExceeded) {
			t.Errorf("read with a deadline in the past: %v", err)
		}
		if w.Stats.ExpiredDeadlineReadsWithDataWaiting != 1 {
			t.Errorf("counter = %d", w.Stats.ExpiredDeadlineReadsWithDataWaiting)
		}
		// a renewed deadline delivers the data that has been waiting all along
		_ = s.SetReadDeadline(time.Now().Add(time.Second))
		if n, err := s.Read(buf); err != nil || string(buf[:n]) != "hello" {
			t.Errorf("read after renewal: %q %v", buf[:n], err)
		}
	})
}

func TestProcessDiedFreesPortAndResetsConnections(t *testing.T) {
	run(t, 5, func() {
		w := Reset()
		var srv *TCPConn
		done := make(chan struct{})
		simrt.GoNamed("sut", 1, func() {
			l, err := Listen("tcp", "localhost:7002")
			if err != nil {
				t.Error(err)
			}
			srv, _ = l.(*TCPListener).AcceptTCP()
			close(done)
		})
		simrt.Sleep("test", time.Millisecond)
		c, err := Connect("localhost:7002")
		if err != nil {
			t.Fatal(err)
		}
		simrt.Recv("test", done)
		if srv.FD() == 0 {
			t.Fatal("connection of the system under test has no descriptor")
		}
		w.ProcessDied()
		if len(w.OpenFDs()) != 0 {
			t.Errorf("descriptors left after the process died: %v", w.OpenFDs())
		}
		if _, err := c.Write([]byte("x")); !errors.Is(err, syscall.ECONNRESET) && !errors.Is(err, syscall.EPIPE) {
			t.Errorf("write to a dead process: %v", err)
		}
		if _, err := Connect("localhost:7002"); !errors.Is(err, syscall.ECONNREFUSED) {
			t.Errorf("dial after the process died: %v", err)
		}
		// the next process can bind the port again
		simrt.GoNamed("sut2", 2, func() {
			if _, err := Listen("tcp", "localhost:7002"); err != nil {
				t.Errorf("bind after the process died: %v", err)
			}
		})
		simrt.Sleep("test", time.Millisecond)
	})
}
