package simsync

import (
	"testing"
	"time"

	"verif.local/sim/simrt"
)

func run(t *testing.T, seed uint64, driver func()) simrt.Result {
	t.Helper()
	res := simrt.Run(t, simrt.Config{Seed: seed, MaxSteps: 500000}, driver)
	if res.HarnessError != "" || res.Crash != nil || res.Stuck || res.CapHit != "" {
		t.Fatalf("seed %d: herr=%q crash=%v stuck=%q cap=%q", seed, res.HarnessError, res.Crash, res.StuckInfo, res.CapHit)
	}
	return res
}

func TestMutexExcludes(t *testing.T) {
	for seed := uint64(1); seed <= 30; seed++ {
		run(t, seed, func() {
			var mu Mutex
			var wg WaitGroup
			inside, total := 0, 0
			for w := 0; w < 4; w++ {
				wg.Add(1)
				simrt.GoNamed("w", 0, func() {
					defer wg.Done()
					for i := 0; i < 5; i++ {
						mu.Lock()
						inside++
						if inside != 1 {
							t.Errorf("seed %d: %d goroutines inside the critical section", seed, inside)
						}
						simrt.Yield("inside") // a scheduling point inside the section: others must stay out
						simrt.Sleep("inside", time.Millisecond)
						total++
						inside--
						mu.Unlock()
					}
				})
			}
			wg.Wait()
			if total != 20 {
				t.Errorf("total %d", total)
			}
			if !mu.TryLock() {
				t.Errorf("TryLock on a free mutex failed")
			}
			if mu.TryLock() {
				t.Errorf("TryLock on a held mutex succeeded")
			}
		})
	}
}

func TestRWMutexReadersShareWritersExclude(t *testing.T) {
	for seed := uint64(1); seed <= 30; seed++ {
		run(t, seed, func() {
			var rw RWMutex
			var wg WaitGroup
			readers, writers, maxReaders := 0, 0, 0
			for w := 0; w < 3; w++ {
				wg.Add(2)
				simrt.GoNamed("reader", 0, func() {
					defer wg.Done()
					for i := 0; i < 4; i++ {
						rw.RLock()
						readers++
						maxReaders = max(maxReaders, readers)
						if writers != 0 {
							t.Errorf("seed %d: reader inside with a writer", seed)
						}
						simrt.Sleep("read", time.Millisecond)
						readers--
						rw.RUnlock()
					}
				})
				simrt.GoNamed("writer", 0, func() {
					defer wg.Done()
					for i := 0; i < 2; i++ {
						rw.Lock()
						writers++
						if writers != 1 || readers != 0 {
							t.Errorf("seed %d: writer inside with %d writers, %d readers", seed, writers, readers)
						}
						simrt.Sleep("write", time.Millisecond)
						writers--
						rw.Unlock()
					}
				})
			}
			wg.Wait()
			_ = maxReaders
		})
	}
}

func TestWaitGroupWaitsForAll(t *testing.T) {
	for seed := uint64(1); seed <= 20; seed++ {
		run(t, seed, func() {
			var wg WaitGroup
			done := 0
			for w := 0; w < 5; w++ {
				d := time.Duration(w+1) * time.Second
				wg.Go(func() {
					simrt.Sleep("work", d)
					done++
				})
			}
			wg.Wait()
			if done != 5 {
				t.Errorf("seed %d: Wait returned with %d of 5 done", seed, done)
			}
			wg.Wait() // at zero: returns at once
		})
	}
}

func TestOnceRunsOnce(t *testing.T) {
	run(t, 3, func() {
		var o Once
		var wg WaitGroup
		n := 0
		for w := 0; w < 4; w++ {
			wg.Go(func() { o.Do(func() { n++; simrt.Sleep("init", time.Second) }) })
		}
		wg.Wait()
		if n != 1 {
			t.Errorf("Once ran %d times", n)
		}
	})
}

func TestPoolModes(t *testing.T) {
	defer func() { Mode = PoolLIFO; OnPut = nil }()
	run(t, 1, func() {
		fresh := 0
		p := Pool{New: func() any { fresh++; return new(int) }}
		Mode = PoolLIFO
		a := p.Get().(*int)
		p.Put(a)
		if b := p.Get().(*int); b != a {
			t.Errorf("LIFO mode must hand out the object released last")
		}
		p.Put(a)
		Mode = PoolFresh
		if b := p.Get().(*int); b == a {
			t.Errorf("fresh mode must not reuse")
		}
		var seen []any
		OnPut = func(x any) { seen = append(seen, x) }
		p.Put(a)
		if len(seen) != 1 || seen[0] != any(a) {
			t.Errorf("OnPut hook not called with the released object")
		}
	})
	// the adversary mode draws from the decision stream: both outcomes occur over seeds, the same seed repeats
	reused, notReused := 0, 0
	for seed := uint64(1); seed <= 40; seed++ {
		var first, second bool
		for rep := 0; rep < 2; rep++ {
			run(t, seed, func() {
				Mode = PoolAdversary
				p := Pool{New: func() any { return new(int) }}
				a, b := new(int), new(int)
				p.Put(a)
				p.Put(b)
				got := p.Get()
				r := got == any(a) || got == any(b)
				if rep == 0 {
					first = r
				} else {
					second = r
				}
			})
		}
		if first != second {
			t.Fatalf("seed %d: pool decision not repeatable", seed)
		}
		if first {
			reused++
		} else {
			notReused++
		}
	}
	if reused == 0 {
		t.Fatalf("adversary mode never reused an object in 40 seeds")
	}
	_ = notReused
}
