// Package simsync replaces package sync in instrumented code: locks park instead of blocking
// non-durably, WaitGroup waits are scheduling points, Pool is deterministic.
package simsync

import (
	"sync"

	"verif.local/sim/simrt"
)

// Locker is sync.Locker
type Locker = sync.Locker

// Once is sync.Once (never blocks across goroutines in single-runner execution unless f yields; then a
// second caller would block non-durably, so Do is implemented on Mutex)
type Once struct {
	m    Mutex
	done bool
}

// Do is sync.Once.Do
func (o *Once) Do(f func()) {
	o.m.Lock()
	defer o.m.Unlock()
	if !o.done {
		defer func() { o.done = true }()
		f()
	}
}

// Mutex is sync.Mutex built on a channel so that waiting is a durable block
type Mutex struct {
	init sync.Once
	ch   chan struct{}
}

func (m *Mutex) c() chan struct{} {
	m.init.Do(func() { m.ch = make(chan struct{}, 1) })
	return m.ch
}

// Lock is sync.Mutex.Lock
func (m *Mutex) Lock() {
	if !simrt.Active() {
		m.c() <- struct{}{}
		return
	}
	simrt.Send("mutex.Lock", m.c(), struct{}{})
}

// TryLock is sync.Mutex.TryLock
func (m *Mutex) TryLock() bool {
	simrt.Yield("mutex.TryLock")
	select {
	case m.c() <- struct{}{}:
		return true
	default:
		return false
	}
}

// Unlock is sync.Mutex.Unlock
func (m *Mutex) Unlock() {
	select {
	case <-m.c():
	default:
		panic("simsync: unlock of unlocked mutex")
	}
}

// RWMutex is sync.RWMutex (writer-preferring), state guarded by single-runner execution plus a real mutex
type RWMutex struct {
	mu      sync.Mutex
	readers int
	writer  bool
	wwait   int
	ev      chan struct{}
}

func (rw *RWMutex) event() chan struct{} {
	if rw.ev == nil {
		rw.ev = make(chan struct{})
	}
	return rw.ev
}

func (rw *RWMutex) broadcast() {
	if rw.ev != nil {
		close(rw.ev)
		rw.ev = nil
	}
}

// RLock is sync.RWMutex.RLock
func (rw *RWMutex) RLock() {
	simrt.Yield("rwmutex.RLock")
	for {
		rw.mu.Lock()
		if !rw.writer && rw.wwait == 0 {
			rw.readers++
			rw.mu.Unlock()
			return
		}
		ev := rw.event()
		rw.mu.Unlock()
		simrt.Recv("rwmutex.RLock", ev)
	}
}

// RUnlock is sync.RWMutex.RUnlock
func (rw *RWMutex) RUnlock() {
	rw.mu.Lock()
	rw.readers--
	if rw.readers < 0 {
		panic("simsync: RUnlock of unlocked RWMutex")
	}
	if rw.readers == 0 {
		rw.broadcast()
	}
	rw.mu.Unlock()
}

// Lock is sync.RWMutex.Lock
func (rw *RWMutex) Lock() {
	simrt.Yield("rwmutex.Lock")
	rw.mu.Lock()
	rw.wwait++
	for {
		if !rw.writer && rw.readers == 0 {
			rw.writer = true
			rw.wwait--
			rw.mu.Unlock()
			return
		}
		ev := rw.event()
		rw.mu.Unlock()
		simrt.Recv("rwmutex.Lock", ev)
		rw.mu.Lock()
	}
}

// Unlock is sync.RWMutex.Unlock
func (rw *RWMutex) Unlock() {
	rw.mu.Lock()
	if !rw.writer {
		panic("simsync: Unlock of unlocked RWMutex")
	}
	rw.writer = false
	rw.broadcast()
	rw.mu.Unlock()
}

// RLocker is sync.RWMutex.RLocker
func (rw *RWMutex) RLocker() Locker { return (*rlocker)(rw) }

type rlocker RWMutex

func (r *rlocker) Lock()   { (*RWMutex)(r).RLock() }
func (r *rlocker) Unlock() { (*RWMutex)(r).RUnlock() }

// WaitGroup is sync.WaitGroup whose Wait is a durable, instrumented block
type WaitGroup struct {
	mu sync.Mutex
	n  int
	ev chan struct{}
}

// Add is sync.WaitGroup.Add
func (wg *WaitGroup) Add(delta int) {
	wg.mu.Lock()
	wg.n += delta
	if wg.n < 0 {
		wg.mu.Unlock()
		panic("sync: negative WaitGroup counter")
	}
	if wg.n == 0 && wg.ev != nil {
		close(wg.ev)
		wg.ev = nil
	}
	wg.mu.Unlock()
}

// Done is sync.WaitGroup.Done
func (wg *WaitGroup) Done() {
	simrt.Yield("waitgroup.Done")
	wg.Add(-1)
}

// Go is sync.WaitGroup.Go
func (wg *WaitGroup) Go(f func()) {
	wg.Add(1)
	simrt.Go("waitgroup.Go", func() {
		defer wg.Done()
		f()
	})
}

// Wait is sync.WaitGroup.Wait
func (wg *WaitGroup) Wait() {
	simrt.Yield("waitgroup.Wait")
	for {
		wg.mu.Lock()
		if wg.n == 0 {
			wg.mu.Unlock()
			return
		}
		if wg.ev == nil {
			wg.ev = make(chan struct{})
		}
		ev := wg.ev
		wg.mu.Unlock()
		simrt.Recv("waitgroup.Wait", ev)
	}
}

// PoolMode selects the behaviour of Pool.Get within sync.Pool's contract
type PoolMode int

const (
	// PoolLIFO always returns the most recently released object (maximal reuse)
	PoolLIFO PoolMode = iota
	// PoolAdversary lets the decision stream choose: newest, a random pooled object, or a fresh one
	PoolAdversary
	// PoolFresh never reuses
	PoolFresh
)

// Mode is the pool behaviour of the current run (set by the harness before the run starts)
var Mode = PoolLIFO

// OnPut, if set, is called with every object released to a pool (the harness poisons buffers here)
var OnPut func(x any)

// Pool is a deterministic sync.Pool
type Pool struct {
	New   func() any
	mu    sync.Mutex
	items []any
}

// Get is sync.Pool.Get
func (p *Pool) Get() any {
	p.mu.Lock()
	n := len(p.items)
	var x any
	if n > 0 {
		switch Mode {
		case PoolLIFO:
			x = p.items[n-1]
			p.items = p.items[:n-1]
		case PoolAdversary:
			switch simrt.Choose(3) {
			case 0:
				x = p.items[n-1]
				p.items = p.items[:n-1]
			case 1:
				i := simrt.Choose(n)
				x = p.items[i]
				p.items = append(p.items[:i], p.items[i+1:]...)
			}
		}
	}
	p.mu.Unlock()
	if x == nil && p.New != nil {
		x = p.New()
	}
	return x
}

// Put is sync.Pool.Put
func (p *Pool) Put(x any) {
	if x == nil {
		return
	}
	if OnPut != nil {
		OnPut(x)
	}
	p.mu.Lock()
	if len(p.items) < 64 {
		p.items = append(p.items, x)
	}
	p.mu.Unlock()
}
