package tparsetime

import (
	"testing"
	"time"
)

// The zone string used as key of the timezone cache is a substring of the record's time field, which lives in a pooled
// backing buffer. When the buffer is reused by another record the key's bytes change under the map. A later lookup of
// the new bytes finds the old entry whenever the top hash bits happen to agree (1 in 128/256, hash seed is per map).
func TestTimezoneCacheKeyAliasesReusedBuffer(t *testing.T) {
	wrong := 0
	for round := 0; round < 20000 && wrong == 0; round++ {
		cache := make(map[string]*time.Location)
		buf := []byte("2024-03-05T10:20:30.123456-03:00") // backing buffer of record 1
		if _, err := parseRFC3339Timestamp(string(buf[:0])+unsafeString(buf), cache); err != nil {
			t.Fatal(err)
		}
		copy(buf, "2024-03-05T10:20:30.123456+00:00") // buffer reused by record 2 (same layout, other zone)
		got, err := parseRFC3339Timestamp(unsafeString(buf), cache)
		if err != nil {
			t.Fatal(err)
		}
		want, _ := time.Parse(time.RFC3339Nano, "2024-03-05T10:20:30.123456+00:00")
		if !got.Equal(want) {
			wrong++
			t.Errorf("round %d: record with zone +00:00 parsed as %v (zone of the record that used the buffer before)", round, got.UTC())
		}
	}
}
