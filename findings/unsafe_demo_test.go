package tparsetime

import "unsafe"

func unsafeString(b []byte) string { return unsafe.String(unsafe.SliceData(b), len(b)) }
