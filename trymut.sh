#!/bin/bash
# usage: trymut.sh <mutant-name> [percent]  -- apply one mutant to a scratch copy and run its property's quick check
N=$1; PC=${2:-50}; ID=${N%%-*}
D=$(mktemp -d /tmp/trymut-XXXX); rsync -a --exclude .git /repo/ $D/repo/ && (cd $D/repo && patch -s -p1 < /verif/mutants/$N.patch) || { echo PATCH-FAILED; exit 2; }
/verif/tryseed.sh $D/repo $ID $PC | grep -a -v "^check: built"
rm -rf $D
