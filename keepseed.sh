#!/bin/bash
# usage: keepseed.sh <worktree> <name> <demo-test-regex> <pkg-of-demo>
# confirms a seeded change: builds, existing tests pass, demo fails with the change and passes without; stores it under seeded/<name>
set -u
export GOFLAGS=-mod=mod GOPROXY=off GOSUMDB=off GOTOOLCHAIN=local
W=$1; NAME=$2; DEMO=$3; PKG=$4
OUT=/verif/seeded/$NAME; mkdir -p $OUT
cd $W || exit 2
git diff > $OUT/patch.diff
UNTRACKED=$(git ls-files --others --exclude-standard)
mkdir -p $OUT/demo; for f in $UNTRACKED; do mkdir -p $OUT/demo/$(dirname $f); cp $f $OUT/demo/$f; done
echo "== build"; go build ./... && echo BUILD-OK
echo "== existing tests (demo files moved away)"
mkdir -p /tmp/keepseed-$$; for f in $UNTRACKED; do mkdir -p /tmp/keepseed-$$/$(dirname $f); mv $f /tmp/keepseed-$$/$f; done
go test -vet=off -count=1 ./... 2>&1 | grep -v "no test files" | grep -v "^ok" | head -20; echo "existing-tests exit=${PIPESTATUS[0]}"
for f in $UNTRACKED; do mv /tmp/keepseed-$$/$f $f; done; rm -rf /tmp/keepseed-$$
echo "== demo WITH change (expect FAIL)"
go test -count=1 -run "$DEMO" $PKG 2>&1 | tail -5; echo "with-change exit=${PIPESTATUS[0]}"
echo "== demo WITHOUT change (expect PASS)"
# (git stash is shared between worktrees: revert with the saved patch instead)
git apply -R $OUT/patch.diff && go test -count=1 -run "$DEMO" $PKG 2>&1 | tail -3; echo "without-change exit=${PIPESTATUS[0]}"; git apply $OUT/patch.diff
git status --short
