#!/bin/bash
# usage: thorough_all.sh <seed> [budget-seconds-per-property]   -- thorough tier of every claimed property under one VERIF_SEED
cd "$(dirname "$0")"
SEED=${1:-20260926}; B=${2:-900}
rc=0
for id in C01 C02 C03 C04 C05 C06 C07 C08 C11 C12 C17 C18 C19; do
  VERIF_SEED=$SEED VERIF_BUDGET_S=$B ./check $id --tier thorough 2>&1 | grep -a "^check C\|^VIOLATION\|^  rule=\|HARNESS\|^KNOWN" | cut -c1-400
  c=${PIPESTATUS[0]}; [ $c -ne 0 ] && rc=$c
done
echo "thorough_all seed=$SEED exit=$rc"
exit $rc
