#!/bin/bash
# usage: tryseed.sh <worktree-or-patched-repo-dir> <ID> [percent]   -- run a property's quick check against another tree without touching evidence/replays
D=$1; ID=$2; PC=${3:-100}
T=$(mktemp -d /tmp/tryseed-XXXX)
VERIF_REPO=$D VERIF_EVIDENCE_DIR=$T/ev VERIF_REPLAYS_DIR=$T/rp VERIF_QUICK_PERCENT=$PC /verif/check $ID --tier quick 2>&1 | grep -a -v "^KNOWN-FINDING" | tail -6 | cut -c1-400
echo "exit=${PIPESTATUS[0]}"
rm -rf $T
