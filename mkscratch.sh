#!/bin/bash
# usage: mkscratch.sh <scratch-dir>   -- copy /repo working tree + gotils + sim, instrument with simgo
set -euo pipefail
export GOFLAGS=-mod=mod GOPROXY=off GOSUMDB=off GOTOOLCHAIN=local
S=$1
REPO=${VERIF_REPO:-/repo}
VERIF=$(cd "$(dirname "$0")" && pwd)
rm -rf "$S"; mkdir -p "$S"
rsync -a --exclude .git "$REPO"/ "$S"/repo/
GOTILS=$(cd "$REPO" && go list -m -f '{{.Dir}}' github.com/relex/gotils)
cp -r "$GOTILS" "$S"/gotils; chmod -R u+w "$S"/gotils
cp -r "$VERIF"/sim "$S"/sim
cp -r "$VERIF"/harness "$S"/harness
cat >> "$S"/repo/go.mod <<'EOT'

require verif.local/sim v0.0.0
replace verif.local/sim => ../sim
replace github.com/relex/gotils => ../gotils
EOT
cat >> "$S"/gotils/logger/verif_hooks.go <<'EOT'
package logger

// VerifSetExitFunc replaces the process-exit function of the root logger (scratch-copy hook added by the
// simulator's build; not part of gotils)
func VerifSetExitFunc(f func(int)) { root.entry.Logger.ExitFunc = f }
EOT
(cd "$VERIF"/tools && go build -o "$S"/simgo ./cmd/simgo)
(cd "$S"/repo && "$S"/simgo -repo "$S"/repo -gotils "$S"/gotils)
