#!/bin/bash
# usage: mkmut.sh <name> <file> <python-expr-old> <python-expr-new>  (creates /verif/mutants/<name>.patch from a single replacement)
N=$1; F=$2
D=$(mktemp -d /tmp/mkmut-XXXX); mkdir -p $D/a/$(dirname $F) $D/b/$(dirname $F); cp /repo/$F $D/a/$F; cp /repo/$F $D/b/$F
python3 - "$D/b/$F" "$3" "$4" <<'PY'
import sys
p,old,new=sys.argv[1:4]
s=open(p).read()
assert s.count(old)==1, "old text occurs %d times"%s.count(old)
open(p,'w').write(s.replace(old,new))
PY
[ $? = 0 ] || { rm -rf $D; exit 1; }
(cd $D && diff -u a/$F b/$F > /verif/mutants/$N.patch); rm -rf $D; cat /verif/mutants/$N.patch
