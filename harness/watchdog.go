package harness

import (
	"fmt"
	"os"
	"runtime"
	"sync"
	"time"
)

// The watchdog runs outside every bubble on the real clock. A run that exceeds its wall-clock cap is
// harness trouble: stacks are dumped and the process exits 2 (never a VIOLATION).
var (
	wdMu       sync.Mutex
	wdDeadline time.Time
	wdWhat     string
	wdOnce     sync.Once
	wdCap      = 900 * time.Second // generous: a run takes well under a second, but the machine may be heavily loaded
)

func armWatchdog(what string) {
	wdOnce.Do(func() {
		go func() {
			for {
				time.Sleep(500 * time.Millisecond)
				wdMu.Lock()
				d, w := wdDeadline, wdWhat
				wdMu.Unlock()
				if !d.IsZero() && time.Now().After(d) {
					buf := make([]byte, 4<<20)
					n := runtime.Stack(buf, true)
					fmt.Fprintf(os.Stderr, "WATCHDOG: run exceeded wall-clock cap: %s\n%s\n", w, buf[:n])
					os.Exit(2)
				}
			}
		}()
	})
	wdMu.Lock()
	wdDeadline = time.Now().Add(wdCap)
	wdWhat = what
	wdMu.Unlock()
}

func disarmWatchdog() {
	wdMu.Lock()
	wdDeadline = time.Time{}
	wdMu.Unlock()
}
