module verif.local/harness

go 1.25

require (
	github.com/relex/gotils v1.1.1
	github.com/relex/slog-agent v0.0.0
	verif.local/sim v0.0.0
)

replace github.com/relex/slog-agent => ../repo

replace github.com/relex/gotils => ../gotils

replace verif.local/sim => ../sim
