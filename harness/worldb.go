package harness

import (
	"bytes"
	"encoding/json"
	"fmt"
	"sort"
	"strings"
	"syscall"
	"testing"
	"time"

	"github.com/relex/gotils/channels"
	"github.com/relex/gotils/logger"
	"github.com/relex/gotils/promexporter/promreg"
	"github.com/relex/slog-agent/base"
	"github.com/relex/slog-agent/defs"
	"github.com/relex/slog-agent/output/baseoutput"
	"verif.local/sim/simrt"
	"verif.local/sim/simsignal"
)

// World B: the real baseoutput.ClientWorker (worker, session, acknowledger) against a scripted
// ClosableClientConnection, a chunk source that behaves like the hybrid buffer's feeder, and recording
// consumed / leftover / finished callbacks. Decides C02 (and the client-level instance of C18).

func init() { worlds["B"] = &worldB{} }

type worldB struct{}

// BOp is the scripted outcome of one connect / send / ping operation
type BOp struct {
	Kind    string `json:"kind"` // ok | err | block
	DelayMs int    `json:"delay_ms"`
}

// BAck is the scripted outcome of one ACK read
type BAck struct {
	Kind    string `json:"kind"` // ack | newest | unknown | dup | err | hang
	DelayMs int    `json:"delay_ms"`
}

// BConn scripts one connection attempt
type BConn struct {
	Open  BOp    `json:"open"`
	Sends []BOp  `json:"sends"`
	Pings []BOp  `json:"pings"`
	Acks  []BAck `json:"acks"`
}

// BChunk is one chunk fed to the client
type BChunk struct {
	DelayMs int `json:"delay_ms"`
	Size    int `json:"size"`
}

// BScenario is the explicit scenario of one world-B run
type BScenario struct {
	Fine          bool     `json:"fine_yields,omitempty"` // every larger function entry of the code under test is a preemption point in this run
	Family        string   `json:"family"`                // fluentd | datadog
	Chunks        []BChunk `json:"chunks"`
	InCap         int      `json:"in_cap"`
	MaxDurMs      int      `json:"max_duration_ms"`
	AckerCap      int      `json:"acker_cap"`
	AckTimeoutMs  int      `json:"ack_timeout_ms"`
	ICTMs         int      `json:"intermediate_channel_timeout_ms"`
	SendBaseMs    int      `json:"send_timeout_base_ms"`
	RetryMs       int      `json:"retry_interval_ms"`
	PingMs        int      `json:"ping_interval_ms"`
	OpenTimeoutMs int      `json:"open_timeout_ms"`
	HTTPTimeoutMs int      `json:"http_timeout_ms"`
	Conns         []BConn  `json:"conns"`
	HealAtMs      int      `json:"heal_at_ms"`
	StopAtMs      int      `json:"stop_at_ms"` // <0: no scripted stop; the driver stops after everything was consumed
	Usr1AtMs      []int    `json:"sigusr1_at_ms"`
}

func ms(n int) time.Duration { return time.Duration(n) * time.Millisecond }

func (w *worldB) Decode(raw json.RawMessage) (any, error) {
	var s BScenario
	err := json.Unmarshal(raw, &s)
	return &s, err
}

// SetFine switches fine-grained interleaving on for this scenario
func (s *BScenario) SetFine(v bool) { s.Fine = v }

func (w *worldB) Generate(r *simrt.Rand, profile, tier string) any {
	s := &BScenario{}
	s.Family = "fluentd"
	if r.Bool(20) {
		s.Family = "datadog"
	}
	n := r.Range(1, 12)
	if r.Bool(30) {
		n = r.Range(1, 4)
	}
	for i := 0; i < n; i++ {
		d := 0
		switch r.Intn(4) {
		case 0:
			d = r.Intn(50)
		case 1:
			d = r.Intn(3000)
		case 2:
			d = r.Intn(40000)
		}
		s.Chunks = append(s.Chunks, BChunk{DelayMs: d, Size: 1 + r.Intn(2000)})
	}
	s.InCap = []int{1, 2, 5, 20}[r.Intn(4)]
	s.AckerCap = []int{1, 2, 10}[r.Intn(3)]
	s.AckTimeoutMs = []int{3000, 30000, 120000}[r.Intn(3)]
	s.ICTMs = []int{5000, 60000}[r.Intn(2)]
	s.SendBaseMs = []int{3000, 90000}[r.Intn(2)]
	s.RetryMs = []int{100, 2000, 10000}[r.Intn(3)]
	s.PingMs = []int{1000, 20000}[r.Intn(2)]
	s.OpenTimeoutMs = []int{1000, 60000}[r.Intn(2)]
	s.HTTPTimeoutMs = []int{2000, 30000}[r.Intn(2)]
	switch r.Intn(4) {
	case 0:
		s.MaxDurMs = -1000
	case 1:
		s.MaxDurMs = r.Range(200, 5000)
	case 2:
		s.MaxDurMs = r.Range(5000, 60000)
	case 3:
		s.MaxDurMs = 30 * 60 * 1000
	}
	if s.Family == "datadog" {
		s.MaxDurMs = 0
	}
	faulty := profile != "nofault"
	nc := r.Range(0, 5)
	if !faulty {
		nc = 0
	}
	pickDelay := func() int {
		switch r.Intn(4) {
		case 0:
			return 0
		case 1:
			return r.Intn(100)
		case 2:
			return r.Intn(5000)
		}
		return r.Intn(150000)
	}
	for i := 0; i < nc; i++ {
		var c BConn
		switch r.Pick(6, 2, 2) {
		case 0:
			c.Open = BOp{"ok", pickDelay() % 2000}
		case 1:
			c.Open = BOp{"err", pickDelay() % 5000}
		case 2:
			c.Open = BOp{"block", 0}
			if r.Bool(50) {
				c.Open.Kind = "blockok"
			}
		}
		if s.Family == "datadog" {
			c.Open = BOp{"ok", 0}
		}
		for j, m := 0, r.Intn(6); j < m; j++ {
			k := []string{"ok", "ok", "ok", "err", "block"}[r.Intn(5)]
			c.Sends = append(c.Sends, BOp{k, pickDelay()})
		}
		for j, m := 0, r.Intn(3); j < m; j++ {
			k := []string{"ok", "ok", "err", "block"}[r.Intn(4)]
			c.Pings = append(c.Pings, BOp{k, pickDelay() % 3000})
		}
		for j, m := 0, r.Intn(6); j < m; j++ {
			k := []string{"ack", "ack", "ack", "newest", "unknown", "dup", "err", "hang"}[r.Intn(8)]
			c.Acks = append(c.Acks, BAck{k, pickDelay()})
		}
		s.Conns = append(s.Conns, c)
	}
	total := 0
	for _, c := range s.Chunks {
		total += c.DelayMs
	}
	s.HealAtMs = r.Intn(total + 60000)
	if !faulty {
		s.HealAtMs = 0
	}
	s.StopAtMs = -1
	if profile == "stop" || (profile == "mixed" && r.Bool(50)) {
		s.StopAtMs = r.Intn(total + 30000)
		if r.Bool(30) {
			s.StopAtMs = r.Intn(200)
		}
	}
	for j, m := 0, r.Pick(6, 2, 1); j < m; j++ {
		s.Usr1AtMs = append(s.Usr1AtMs, r.Intn(total+30000))
	}
	if s.Family == "datadog" {
		s.Usr1AtMs = nil
	}
	// Ties: part of the scripted stops and reconnect signals fall on the very instant at which the worker wakes up for another
	// reason - a connection attempt completes or fails, a retry wait ends, a chunk is fed, the first ACK arrives. Which of the two
	// the worker sees first is then up to the schedule (a stop that arrives while it is between two stages takes paths that a
	// stop during a wait never reaches, e.g. a chunk received after the stop signal).
	var instants []int
	t := 0
	for _, ch := range s.Chunks {
		t += ch.DelayMs
		instants = append(instants, t)
	}
	t = 0
	opened := false
	for _, c := range s.Conns {
		switch c.Open.Kind {
		case "ok":
			t += c.Open.DelayMs
			instants = append(instants, t)
			if len(c.Sends) > 0 && c.Sends[0].Kind == "ok" {
				instants = append(instants, t+c.Sends[0].DelayMs)
				if len(c.Acks) > 0 {
					instants = append(instants, t+c.Sends[0].DelayMs+c.Acks[0].DelayMs)
				}
			}
			opened = true
		case "err":
			t += c.Open.DelayMs
			instants = append(instants, t, t+s.RetryMs)
			t += s.RetryMs
		default:
			t += s.OpenTimeoutMs
			instants = append(instants, t, t+s.RetryMs)
			t += s.RetryMs
		}
		if opened {
			break
		}
	}
	if !opened {
		instants = append(instants, t) // the first attempt beyond the script succeeds at once
	}
	if s.StopAtMs >= 0 && r.Bool(30) {
		s.StopAtMs = instants[r.Intn(len(instants))]
	}
	if len(s.Usr1AtMs) > 0 && r.Bool(20) {
		s.Usr1AtMs[0] = instants[r.Intn(len(instants))]
	}
	return s
}

func (w *worldB) Shrink(sc any) []any {
	s := sc.(*BScenario)
	var out []any
	clone := func() *BScenario {
		b, _ := json.Marshal(s)
		var c BScenario
		_ = json.Unmarshal(b, &c)
		return &c
	}
	if len(s.Chunks) > 1 {
		c := clone()
		c.Chunks = c.Chunks[:len(c.Chunks)-1]
		out = append(out, c)
		c = clone()
		c.Chunks = c.Chunks[:(len(c.Chunks)+1)/2]
		out = append(out, c)
	}
	if len(s.Usr1AtMs) > 0 {
		c := clone()
		c.Usr1AtMs = c.Usr1AtMs[:len(c.Usr1AtMs)-1]
		out = append(out, c)
	}
	if len(s.Conns) > 0 {
		c := clone()
		c.Conns = c.Conns[:len(c.Conns)-1]
		out = append(out, c)
		for i := range s.Conns {
			c := clone()
			c.Conns = append(c.Conns[:i], c.Conns[i+1:]...)
			out = append(out, c)
		}
	}
	for i, cn := range s.Conns {
		if cn.Open.Kind != "ok" || cn.Open.DelayMs != 0 {
			c := clone()
			c.Conns[i].Open = BOp{"ok", 0}
			out = append(out, c)
		}
		if len(cn.Sends) > 0 {
			c := clone()
			c.Conns[i].Sends = c.Conns[i].Sends[:len(cn.Sends)-1]
			out = append(out, c)
		}
		if len(cn.Pings) > 0 {
			c := clone()
			c.Conns[i].Pings = nil
			out = append(out, c)
		}
		if len(cn.Acks) > 0 {
			c := clone()
			c.Conns[i].Acks = c.Conns[i].Acks[:len(cn.Acks)-1]
			out = append(out, c)
		}
		for j, op := range cn.Sends {
			if op.Kind != "ok" || op.DelayMs != 0 {
				c := clone()
				c.Conns[i].Sends[j] = BOp{"ok", 0}
				out = append(out, c)
			}
		}
		for j, op := range cn.Acks {
			if op.Kind != "ack" || op.DelayMs != 0 {
				c := clone()
				c.Conns[i].Acks[j] = BAck{"ack", 0}
				out = append(out, c)
			}
		}
	}
	for i, ch := range s.Chunks {
		if ch.DelayMs != 0 {
			c := clone()
			c.Chunks[i].DelayMs = 0
			out = append(out, c)
		}
	}
	if s.HealAtMs > 0 {
		c := clone()
		c.HealAtMs = s.HealAtMs / 2
		out = append(out, c)
	}
	if s.StopAtMs > 0 {
		c := clone()
		c.StopAtMs = s.StopAtMs / 2
		out = append(out, c)
	}
	return out
}

type bEvent struct {
	Step int
	T    time.Duration
	Kind string // fed taken? sendStart sendDone ackRet consumed leftover finished stopReq drained open openFail close usr1
	Conn int
	ID   string
}

type bRun struct {
	s          *BScenario
	out        *Outcome
	hist       []bEvent
	ev         chan struct{} // broadcast on every callback event
	conns      []*bConn
	nOpen      int
	stopReq    bool
	finished   int
	consumed   map[string]int
	leftover   map[string]int
	drained    map[string]bool
	fed        []string
	logbuf     bytes.Buffer
	driverNote string
	lastFedAt  time.Duration
}

func (r *bRun) rec(kind string, conn int, id string) {
	r.hist = append(r.hist, bEvent{simrt.Steps(), simrt.Now(), kind, conn, id})
}

func (r *bRun) notify() {
	close(r.ev)
	r.ev = make(chan struct{})
}

func (r *bRun) healed() bool { return simrt.Now() >= ms(r.s.HealAtMs) }

// waitFor waits for d (<0: forever), for a broadcast on *evp, whichever comes first; reports true if the event fired
func waitEv(site string, ev chan struct{}, d time.Duration) bool {
	if d < 0 {
		simrt.Recv(site, ev)
		return true
	}
	if d == 0 {
		return false
	}
	tm := time.NewTimer(d)
	defer tm.Stop()
	return simrt.Select(site, false, simrt.RecvCase(ev), simrt.RecvCase(tm.C)).I == 0
}

type bConn struct {
	r                  *bRun
	k                  int
	script             *BConn
	dd                 bool
	closed             bool
	ev                 chan struct{}
	nSend, nPing, nAck int
	recvd              []string
	acked              []string
	log                logger.Logger
}

type scriptErr struct {
	msg     string
	timeout bool
}

func (e *scriptErr) Error() string   { return e.msg }
func (e *scriptErr) Timeout() bool   { return e.timeout }
func (e *scriptErr) Temporary() bool { return false }

func (c *bConn) notify() {
	close(c.ev)
	c.ev = make(chan struct{})
}

func (c *bConn) Logger() logger.Logger { return c.log }

// pause waits d or until the connection is closed (fluentd family) or the deadline passes.
// Returns "" on completion, "closed" or "deadline" otherwise.
func (c *bConn) pause(site string, d time.Duration, deadline time.Time) string {
	end := time.Now().Add(d)
	for {
		if c.closed && !c.dd {
			return "closed"
		}
		now := time.Now()
		if !deadline.IsZero() && !now.Before(deadline) && end.After(deadline) {
			return "deadline"
		}
		if !now.Before(end) {
			return ""
		}
		wait := end.Sub(now)
		if !deadline.IsZero() && deadline.Before(end) {
			wait = deadline.Sub(now)
		}
		waitEv(site, c.ev, wait)
	}
}

func (c *bConn) SendChunk(chunk base.LogChunk, deadline time.Time) error {
	simrt.Yield("b.SendChunk")
	c.r.rec("sendStart", c.k, chunk.ID)
	op := BOp{"ok", 0}
	if c.nSend < len(c.script.Sends) && !c.r.healed() {
		op = c.script.Sends[c.nSend]
	}
	c.nSend++
	if c.dd {
		deadline = time.Now().Add(ms(c.r.s.HTTPTimeoutMs))
	}
	if c.closed && !c.dd {
		return &scriptErr{"send on closed connection", false}
	}
	switch op.Kind {
	case "ok":
		switch c.pause("b.SendChunk", ms(op.DelayMs), deadline) {
		case "closed":
			c.r.out.fault("send_interrupted_by_close", 1)
			return &scriptErr{"connection closed during send", false}
		case "deadline":
			c.r.out.fault("send_timeout", 1)
			return &scriptErr{"send timeout", true}
		}
		c.recvd = append(c.recvd, chunk.ID)
		c.r.rec("sendDone", c.k, chunk.ID)
		c.notify()
		return nil
	case "err":
		c.pause("b.SendChunk", ms(op.DelayMs), deadline)
		c.r.out.fault("send_error", 1)
		return &scriptErr{"scripted send error", false}
	default: // block
		c.r.out.fault("send_blocked", 1)
		if c.pause("b.SendChunk", 1000*time.Hour, deadline) == "closed" {
			return &scriptErr{"connection closed during blocked send", false}
		}
		return &scriptErr{"send timeout", true}
	}
}

func (c *bConn) SendPing(deadline time.Time) error {
	simrt.Yield("b.SendPing")
	if c.dd {
		return nil
	}
	op := BOp{"ok", 0}
	if c.nPing < len(c.script.Pings) && !c.r.healed() {
		op = c.script.Pings[c.nPing]
	}
	c.nPing++
	c.r.out.probe("ping", 1)
	if c.closed {
		return &scriptErr{"ping on closed connection", false}
	}
	switch op.Kind {
	case "ok":
		if c.pause("b.SendPing", ms(op.DelayMs), deadline) != "" {
			return &scriptErr{"ping interrupted", false}
		}
		return nil
	case "err":
		c.pause("b.SendPing", ms(op.DelayMs), deadline)
		c.r.out.fault("ping_error", 1)
		return &scriptErr{"scripted ping error", false}
	default:
		c.r.out.fault("ping_blocked", 1)
		c.pause("b.SendPing", 1000*time.Hour, deadline)
		return &scriptErr{"ping timeout", true}
	}
}

func (c *bConn) ReadChunkAck(deadline time.Time) (string, error) {
	simrt.Yield("b.ReadChunkAck")
	if c.dd {
		// HTTP family: the response to the request is the acknowledgement; the oldest transmitted chunk is meant
		if len(c.recvd) > 0 {
			id := c.recvd[0]
			c.recvd = c.recvd[1:]
			c.r.rec("ackRet", c.k, id)
		} else {
			c.r.rec("ackRetNone", c.k, "")
		}
		return "", nil
	}
	op := BAck{"ack", 0}
	if c.nAck < len(c.script.Acks) && !c.r.healed() {
		op = c.script.Acks[c.nAck]
	}
	c.nAck++
	if c.closed {
		return "", &scriptErr{"read on closed connection", false}
	}
	fail := func(why string) (string, error) {
		switch why {
		case "closed":
			return "", &scriptErr{"connection closed during ACK read", false}
		default:
			c.r.out.fault("ack_timeout", 1)
			return "", &scriptErr{"ACK read timeout", true}
		}
	}
	kind := op.Kind
	if kind == "dup" && len(c.acked) == 0 {
		kind = "ack"
	}
	switch kind {
	case "ack", "newest":
		for len(c.recvd) == 0 {
			if c.closed {
				return fail("closed")
			}
			d := time.Until(deadline)
			if d <= 0 {
				return fail("deadline")
			}
			waitEv("b.ReadChunkAck", c.ev, d)
		}
		if op.DelayMs > 0 {
			c.r.out.fault("ack_late", 1)
		}
		if why := c.pause("b.ReadChunkAck", ms(op.DelayMs), deadline); why != "" {
			return fail(why)
		}
		i := 0
		if kind == "newest" && len(c.recvd) > 1 {
			i = len(c.recvd) - 1
			c.r.out.fault("ack_out_of_order", 1)
		}
		id := c.recvd[i]
		c.recvd = append(c.recvd[:i], c.recvd[i+1:]...)
		c.acked = append(c.acked, id)
		c.r.rec("ackRet", c.k, id)
		return id, nil
	case "unknown":
		if why := c.pause("b.ReadChunkAck", ms(op.DelayMs), deadline); why != "" {
			return fail(why)
		}
		c.r.out.fault("ack_unknown_id", 1)
		return fmt.Sprintf("bogus-%d-%d", c.k, c.nAck), nil
	case "dup":
		if why := c.pause("b.ReadChunkAck", ms(op.DelayMs), deadline); why != "" {
			return fail(why)
		}
		c.r.out.fault("ack_duplicate", 1)
		return c.acked[len(c.acked)-1], nil
	case "err":
		c.pause("b.ReadChunkAck", ms(op.DelayMs), deadline)
		c.r.out.fault("ack_error", 1)
		return "", &scriptErr{"scripted ACK read error", false}
	default: // hang
		c.r.out.fault("ack_hang", 1)
		return fail(c.pause("b.ReadChunkAck", 1000*time.Hour, deadline))
	}
}

func (c *bConn) Close() {
	simrt.Yield("b.Close")
	if c.closed {
		return
	}
	c.closed = true
	c.r.rec("close", c.k, "")
	c.notify()
}

func (r *bRun) openConn() (baseoutput.ClosableClientConnection, error) {
	simrt.Yield("b.openConn")
	k := r.nOpen
	r.nOpen++
	script := &BConn{Open: BOp{"ok", 0}}
	if k < len(r.s.Conns) && !r.healed() {
		script = &r.s.Conns[k]
	}
	op := script.Open
	switch op.Kind {
	case "err":
		simrt.Sleep("b.openConn", ms(op.DelayMs))
		r.out.fault("connect_refused", 1)
		r.rec("openFail", k, "")
		return nil, fmt.Errorf("scripted connect failure: %w", syscall.ECONNREFUSED)
	case "block":
		r.out.fault("connect_timeout", 1)
		simrt.Sleep("b.openConn", ms(r.s.OpenTimeoutMs))
		r.rec("openFail", k, "")
		return nil, &scriptErr{"connect timeout", true}
	case "blockok":
		r.out.fault("connect_slow", 1)
		simrt.Sleep("b.openConn", ms(r.s.OpenTimeoutMs)-time.Millisecond)
	default:
		simrt.Sleep("b.openConn", ms(op.DelayMs))
	}
	c := &bConn{r: r, k: k, script: script, dd: r.s.Family == "datadog", ev: make(chan struct{}),
		log: logger.WithField("conn", k)}
	r.conns = append(r.conns, c)
	r.rec("open", k, "")
	return c, nil
}

func (r *bRun) sendTimeout(size int) time.Duration {
	return defs.ForwarderBatchSendTimeoutBase + time.Duration(size/defs.ForwarderBatchSendMinimumSpeed)*time.Second
}

func (w *worldB) Run(t *testing.T, profile string, sc any, cfg simrt.Config) *Outcome {
	s := sc.(*BScenario)
	cfg.FineYields = s.Fine
	out := &Outcome{}
	r := &bRun{s: s, out: out, consumed: map[string]int{}, leftover: map[string]int{}, drained: map[string]bool{}}
	logger.SetOutput(&r.logbuf)
	logger.SetLogLevel(logger.InfoLevel)
	cfg.MaxSimTime = 200 * time.Hour
	out.Res = simrt.Run(t, cfg, r.drive)
	out.Log = r.logbuf.String()
	r.evaluate(out)
	return out
}

func (r *bRun) drive() {
	s := r.s
	r.ev = make(chan struct{})
	simsignal.Reset()
	defs.ForwarderMaxPendingChunksForAck = s.AckerCap
	defs.ForwarderBatchAckTimeout = ms(s.AckTimeoutMs)
	defs.IntermediateChannelTimeout = ms(s.ICTMs)
	defs.ForwarderAckerStopTimeout = defs.ForwarderBatchAckTimeout + defs.IntermediateChannelTimeout
	defs.ForwarderBatchSendTimeoutBase = ms(s.SendBaseMs)
	defs.ForwarderBatchSendMinimumSpeed = 10 * 1024
	defs.ForwarderRetryInterval = ms(s.RetryMs)
	defs.ForwarderPingInterval = ms(s.PingMs)

	inputCh := make(chan base.LogChunk, s.InCap)
	inputClosed := channels.NewSignalAwaitable()
	stopCmd := make(chan struct{})
	args := base.ChunkConsumerArgs{
		InputChannel: inputCh,
		InputClosed:  inputClosed,
		OnChunkConsumed: func(c base.LogChunk) {
			simrt.Yield("b.OnChunkConsumed")
			r.consumed[c.ID]++
			r.rec("consumed", -1, c.ID)
			r.notify()
		},
		OnChunkLeftover: func(c base.LogChunk) {
			simrt.Yield("b.OnChunkLeftover")
			r.leftover[c.ID]++
			r.rec("leftover", -1, c.ID)
			r.notify()
		},
		OnFinished: func() {
			simrt.Yield("b.OnFinished")
			r.finished++
			r.rec("finished", -1, "")
			r.notify()
		},
	}
	simrt.SetChildGen(1)
	cw := baseoutput.NewClientWorker(logger.WithField("sim", "B"), args, promreg.NewMetricFactory("b_", nil, nil),
		r.openConn, ms(s.MaxDurMs))
	cw.Start()
	simrt.SetChildGen(0)

	var stopAt time.Duration = -1
	if s.StopAtMs >= 0 {
		stopAt = ms(s.StopAtMs)
	}
	// feeder: behaves like hybridbuffer's outputFeeder towards its consumer
	simrt.GoNamed("feeder", 0, func() {
		doStop := func() {
			r.stopReq = true
			r.rec("stopReq", -1, "")
			// same order as hybridbuffer's outputFeeder
			inputClosed.Signal()
			simrt.Close("b.feeder", inputCh)
			for {
				c, ok := simrt.Recv2("b.feeder.drain", inputCh)
				if !ok {
					break
				}
				r.drained[c.ID] = true
				r.rec("drained", -1, c.ID)
			}
			r.notify()
		}
		for i, ch := range s.Chunks {
			at := simrt.Now() + ms(ch.DelayMs)
			// wait until feed time, stop time or stop command
			for simrt.Now() < at {
				d := at - simrt.Now()
				if stopAt >= 0 && stopAt-simrt.Now() < d {
					d = stopAt - simrt.Now()
				}
				if d > 0 {
					tm := time.NewTimer(d)
					sel := simrt.Select("b.feeder.wait", false, simrt.RecvCase(stopCmd), simrt.RecvCase(tm.C))
					tm.Stop()
					if sel.I == 0 {
						doStop()
						return
					}
				}
				if stopAt >= 0 && simrt.Now() >= stopAt {
					doStop()
					return
				}
			}
			id := fmt.Sprintf("%019d-%08d.ff", 1000+i, 0)
			chunk := base.LogChunk{ID: id, Data: bytes.Repeat([]byte{byte('a' + i%26)}, ch.Size)}
			cases := []simrt.Case{simrt.SendCase[base.LogChunk](inputCh, chunk), simrt.RecvCase(stopCmd)}
			var tm *time.Timer
			if stopAt >= 0 {
				d := stopAt - simrt.Now()
				if d <= 0 {
					doStop()
					return
				}
				tm = time.NewTimer(d)
				cases = append(cases, simrt.RecvCase(tm.C))
			}
			sel := simrt.Select("b.feeder.send", false, cases...)
			if tm != nil {
				tm.Stop()
			}
			if sel.I != 0 {
				doStop()
				return
			}
			r.fed = append(r.fed, id)
			r.lastFedAt = simrt.Now()
			r.rec("fed", -1, id)
			r.notify()
		}
		// all fed: wait for the stop time or command
		if stopAt >= 0 {
			if d := stopAt - simrt.Now(); d > 0 {
				tm := time.NewTimer(d)
				simrt.Select("b.feeder.tail", false, simrt.RecvCase(stopCmd), simrt.RecvCase(tm.C))
				tm.Stop()
			}
		} else {
			simrt.Recv("b.feeder.tail", stopCmd)
		}
		doStop()
	})
	for _, at := range s.Usr1AtMs {
		at := at
		simrt.GoNamed("usr1", 0, func() {
			simrt.Sleep("b.usr1", ms(at))
			if simsignal.Deliver(syscall.SIGUSR1) > 0 {
				r.out.fault("sigusr1_delivered", 1)
			}
			r.rec("usr1", -1, "")
		})
	}

	// driver: liveness and shutdown bounds, computed from the knobs this run set
	maxSize := 0
	for _, c := range s.Chunks {
		maxSize = max(maxSize, c.Size)
	}
	sendTO := r.sendTimeout(maxSize)
	opTO := max(ms(s.AckTimeoutMs), sendTO, ms(s.OpenTimeoutMs), ms(s.HTTPTimeoutMs))
	if stopAt < 0 {
		rot := time.Duration(0)
		if s.MaxDurMs > 0 {
			rot = ms(s.MaxDurMs)
		}
		terms := opTO + rot + defs.ForwarderAckerStopTimeout +
			ms(s.AckTimeoutMs) + sendTO + ms(s.OpenTimeoutMs) + ms(s.RetryMs) + ms(s.PingMs) + 5*time.Second
		for {
			if len(r.fed) == len(s.Chunks) && len(r.consumed) == len(s.Chunks) {
				break
			}
			// the clock of the bound starts when faults have stopped and the youngest chunk so far was handed over
			deadline := max(ms(s.HealAtMs), r.lastFedAt) + terms
			left := deadline - simrt.Now()
			if left <= 0 {
				var missing []string
				for _, id := range r.fed {
					if r.consumed[id] == 0 {
						missing = append(missing, id)
					}
				}
				if len(missing) > 0 {
					r.driverNote = fmt.Sprintf("L1: %d of %d fed chunks not consumed within %v after faults stopped (heal at %v, last fed at %v): %v",
						len(missing), len(r.fed), terms, ms(s.HealAtMs), r.lastFedAt, missing)
					break
				}
				left = -1 // everything handed over so far was consumed; the feeder is still on its own schedule
			}
			waitEv("b.driver.L1", r.ev, left)
		}
		r.rec("allConsumedOrTimeout", -1, "")
		simrt.Close("b.driver", stopCmd)
	}
	// wait for the stop request to be issued
	for !r.stopReq {
		waitEv("b.driver.stopwait", r.ev, -1)
	}
	stopTime := simrt.Now()
	l2 := sendTO + ms(s.AckTimeoutMs) + ms(s.ICTMs) + ms(s.HTTPTimeoutMs) + time.Second
	for r.finished == 0 {
		left := stopTime + l2 - simrt.Now()
		if left <= 0 {
			r.driverNote += fmt.Sprintf(" L2: client did not finish within %v of the stop request", l2)
			break
		}
		waitEv("b.driver.L2", r.ev, left)
	}
	// let trailing callbacks (if any, which would be violations) happen
	simrt.Sleep("b.driver.tail", 2*time.Second)
}

func (r *bRun) evaluate(out *Outcome) {
	s := r.s
	prop := "C02"
	if out.Res.Crash != nil {
		c := out.Res.Crash
		out.violate(prop, "crash", c.TopFrame("slog-agent", "gotils"), "goroutine %s panicked: %s\n%s", c.G, c.Value, c.Stack)
		return
	}
	if out.Res.Stuck {
		out.violate(prop, "stuck", "driver", "driver stuck with nothing runnable: %s", out.Res.StuckInfo)
		return
	}
	if out.Res.CapHit != "" {
		out.Harness = "run hit cap " + out.Res.CapHit
		return
	}
	if strings.Contains(r.driverNote, "L1:") {
		out.violate(prop, "L1", "liveness", "%s", r.driverNote)
	}
	if strings.Contains(r.driverNote, "L2:") {
		out.violate(prop, "L2", "stop", "%s", r.driverNote)
	}
	// index history
	type key struct {
		conn int
		id   string
	}
	sendDone := map[key][]int{}
	ackRet := map[key][]int{}
	stopStep := -1
	finStep := -1
	for _, e := range r.hist {
		switch e.Kind {
		case "sendDone":
			sendDone[key{e.Conn, e.ID}] = append(sendDone[key{e.Conn, e.ID}], e.Step)
		case "ackRet":
			ackRet[key{e.Conn, e.ID}] = append(ackRet[key{e.Conn, e.ID}], e.Step)
		case "stopReq":
			stopStep = e.Step
		case "finished":
			if finStep < 0 {
				finStep = e.Step
			}
		}
	}
	// S1: consumed only after complete transmission and a designating ACK on the same connection
	resolvedAt := map[string]int{}
	for _, e := range r.hist {
		if e.Kind != "consumed" {
			continue
		}
		out.Obligations++
		ok := false
		for k := 0; k < r.nOpen+1 && !ok; k++ {
			for _, sd := range sendDone[key{k, e.ID}] {
				for _, ar := range ackRet[key{k, e.ID}] {
					if sd <= ar && ar <= e.Step {
						ok = true
					}
				}
			}
		}
		if !ok {
			out.violate(prop, "S1", "consumed-without-ack", "chunk %s reported consumed at step %d without a complete transmission followed by its ACK on the same connection", e.ID, e.Step)
		}
		if _, dup := resolvedAt[e.ID]; !dup {
			resolvedAt[e.ID] = e.Step
		}
	}
	// S2: exactly-once resolution of every chunk taken, nothing after finished, finished once
	fedSet := map[string]bool{}
	for _, id := range r.fed {
		fedSet[id] = true
	}
	for _, id := range r.fed {
		out.Obligations++
		n := r.consumed[id] + r.leftover[id]
		if r.drained[id] {
			if n != 0 {
				out.violate(prop, "S2", "resolved-and-returned", "chunk %s was drained back by the feeder and also resolved %d times", id, n)
			}
			continue
		}
		if r.finished > 0 && n == 0 {
			out.violate(prop, "S2", "lost", "chunk %s was taken by the client but neither consumed nor handed back before it finished", id)
		}
		if n > 1 {
			out.violate(prop, "S2", "resolved-twice", "chunk %s resolved %d times (consumed=%d leftover=%d)", id, n, r.consumed[id], r.leftover[id])
		}
	}
	for id := range r.consumed {
		if !fedSet[id] {
			out.violate(prop, "S2", "phantom", "consumed unknown chunk %s", id)
		}
	}
	for id := range r.leftover {
		if !fedSet[id] {
			out.violate(prop, "S2", "phantom", "handed back unknown chunk %s", id)
		}
	}
	if r.finished > 1 {
		out.violate(prop, "S2", "finished-twice", "OnFinished called %d times", r.finished)
	}
	if finStep >= 0 {
		for _, e := range r.hist {
			if e.Step > finStep && (e.Kind == "consumed" || e.Kind == "leftover") {
				out.violate(prop, "S2", "after-finished", "%s(%s) after OnFinished", e.Kind, e.ID)
			}
		}
	}
	// S3: hand-back only after a stop request
	for _, e := range r.hist {
		if e.Kind == "leftover" {
			out.Obligations++
			if stopStep < 0 || e.Step < stopStep {
				out.violate(prop, "S3", "leftover-before-stop", "chunk %s handed back before any stop request", e.ID)
			}
		}
	}
	// S4: per connection ids strictly increase; an older unresolved chunk is never skipped
	lastSent := map[int]string{}
	sentOn := map[key]bool{}
	consumedSoFar := map[string]bool{}
	for _, e := range r.hist {
		switch e.Kind {
		case "consumed":
			consumedSoFar[e.ID] = true
		case "sendStart":
			out.Obligations++
			if prev, ok := lastSent[e.Conn]; ok && !(prev < e.ID) {
				out.violate(prop, "S4", "order", "connection %d: chunk %s transmitted after %s", e.Conn, e.ID, prev)
			}
			for _, id := range r.fed {
				if id < e.ID && !consumedSoFar[id] && !sentOn[key{e.Conn, id}] {
					out.violate(prop, "S4", "skipped-older", "connection %d: chunk %s transmitted while older unresolved chunk %s was not yet retransmitted on it", e.Conn, e.ID, id)
				}
			}
			lastSent[e.Conn] = e.ID
			sentOn[key{e.Conn, e.ID}] = true
		}
	}
	nFaults := 0
	for _, v := range out.Faults {
		nFaults += v
	}
	out.Nontrivial = nFaults > 0 && out.Obligations > 0
	for _, pat := range []string{"aborted before queueing chunk for ack", "soft-stop requested while there are still pending",
		"received ACK to unknown chunk", "max session duration reached", "received a SIGUSR1", "stop requested (recovery stage)",
		"stop requested (connection opening stage)", "stop requested (retry wait)", "stop requested (normal stage), hand back", "stop requested (normal stage)", "timeout waiting for acknowledger to soft stop", "BUG:"} {
		out.probe("log:"+pat, strings.Count(out.Log, pat))
	}
	if n := strings.Count(out.Log, "BUG:"); n > 0 {
		out.probe("log:BUG", n)
	}
	// sample: compact history
	var hs []string
	for i, e := range r.hist {
		if i >= 60 {
			hs = append(hs, "...")
			break
		}
		hs = append(hs, fmt.Sprintf("%d %v %s c%d %s", e.Step, e.T, e.Kind, e.Conn, e.ID))
	}
	keys := make([]string, 0, len(out.Faults))
	for k := range out.Faults {
		keys = append(keys, k)
	}
	sort.Strings(keys)
	out.Sample = map[string]any{"scenario": s, "history": hs, "faults_fired": keys}
}
