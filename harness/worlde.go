package harness

import (
	"bytes"
	"encoding/json"
	"fmt"
	"strings"
	"testing"
	"time"

	"github.com/relex/gotils/channels"
	"github.com/relex/gotils/logger"
	"github.com/relex/slog-agent/base"
	"github.com/relex/slog-agent/defs"
	"github.com/relex/slog-agent/input/syslogprotocol"
	"github.com/relex/slog-agent/input/tcplistener"
	"verif.local/sim/simnet"
	"verif.local/sim/simrt"
)

// World E: the real TCP line listener (accept loop, per-connection goroutine, multiLineReader, NetConnWrapper
// deadline renewal) on the simulated network; clients deliver byte streams cut into read fragments with pauses
// around the flush interval; a recording MultiSinkMessageReceiver captures every framed message. Decides C08.

func init() { worlds["E"] = &worldE{} }

type worldE struct{}

// EFrag is one client write (= one agent read, segment-preserving) preceded by a pause
type EFrag struct {
	PauseMs int `json:"pause_ms"`
	Len     int `json:"len"`
}

// EConn is one client connection
type EConn struct {
	Stream   string  `json:"stream"` // complete, newline-terminated byte stream
	Frags    []EFrag `json:"frags"`  // lengths sum to len(Stream)
	StartMs  int     `json:"start_ms"`
	TailMs   int     `json:"tail_ms"`  // pause before the client closes
	Abortive bool    `json:"abortive"` // client resets instead of closing
}

// EStall makes the receiver block inside its Nth Accept call of one connection: back-pressure from the pipeline (the interface
// lets Accept block up to the hand-over timeout), which keeps the connection's goroutine away from reading
type EStall struct {
	Conn int `json:"conn"`
	Nth  int `json:"nth"`
	Ms   int `json:"ms"`
}

// EScenario is one world-E run
type EScenario struct {
	AcceptStall *EStall `json:"accept_stall,omitempty"`
	Fine        bool    `json:"fine_yields,omitempty"` // every larger function entry of the code under test is a preemption point in this run
	FlushMs     int     `json:"flush_interval_ms"`
	RecordLimit int     `json:"record_limit"`
	Conns       []EConn `json:"conns"`
	StopFirst   bool    `json:"stop_first"` // the agent is stopped (after delivery and a flush) instead of the clients closing
	Sweep       bool    `json:"sweep"`      // base scenario of an exhaustive 1-/2-cut sweep
}

func (w *worldE) Decode(raw json.RawMessage) (any, error) {
	var s EScenario
	err := json.Unmarshal(raw, &s)
	return &s, err
}

var eWords = []string{"alpha", "beta", "gamma", "delta", "x", "yy", "zzz", "lorem ipsum", "<13>2 not-a-start", "<>", "\t at frame", "  continued"}

func eRecordHead(r *simrt.Rand, conn, n int) string {
	pri := []string{"<13>", "<3>", "<165>", "<0>", "<191>"}[r.Intn(5)]
	msg := fmt.Sprintf("c%d.n%d %s", conn, n, eWords[r.Intn(8)])
	for r.Bool(30) {
		msg += " " + eWords[r.Intn(8)]
	}
	return fmt.Sprintf("%s1 2024-01-0%dT00:00:0%d.%03dZ host%d app %d - - %s", pri, 1+r.Intn(9), r.Intn(10), r.Intn(1000), r.Intn(3), r.Intn(100), msg)
}

func eContinuation(r *simrt.Rand) string {
	switch r.Intn(8) {
	case 6, 7:
		// shorter than a record start can be, but beginning exactly like one: whether it passes the start test must not depend
		// on what happens to follow it in the buffer
		return []string{"<13>1 see above", "<3>1 x", "<165>1 2024-01-01T00:00:00Z h", "<0>1 ", "<191>1 -"}[r.Intn(5)]
	case 0:
		return ""
	case 1:
		return "<13>2 2024 looks like a header but is not"
	case 2:
		return "\tat some.Frame(file.go:" + fmt.Sprint(r.Intn(500)) + ")"
	case 3:
		return "<1" // short
	}
	return eWords[8+r.Intn(4)] + " " + eWords[r.Intn(8)]
}

func genStream(r *simrt.Rand, conn int, kind string, maxBytes int) string {
	var sb strings.Builder
	n := 0
	// leading garbage
	if kind != "single" && r.Bool(20) {
		for i, m := 0, 1+r.Intn(2); i < m; i++ {
			sb.WriteString(eContinuation(r) + "\n")
		}
	}
	for sb.Len() < maxBytes {
		n++
		sb.WriteString(eRecordHead(r, conn, n) + "\n")
		if kind != "single" && r.Bool(45) {
			for i, m := 0, 1+r.Intn(3); i < m; i++ {
				sb.WriteString(eContinuation(r) + "\n")
			}
		}
		if r.Bool(15) {
			break
		}
	}
	return sb.String()
}

var ePauses = []int{0, 0, 0, 0, 1, 50, 250, 499, 500, 501, 750, 999, 1000, 1001, 1500, 2500}

// SetFine switches fine-grained interleaving on for this scenario
func (s *EScenario) SetFine(v bool) { s.Fine = v }

func (w *worldE) Generate(r *simrt.Rand, profile, tier string) any {
	s := &EScenario{FlushMs: 500, RecordLimit: 512}
	if r.Bool(30) {
		s.FlushMs = 100
	}
	if profile == "sweep" {
		s.Sweep = true
		kind := []string{"single", "multi"}[r.Intn(2)]
		maxB := 70
		if tier == "thorough" {
			maxB = 110
		}
		st := genStream(r, 0, kind, maxB)
		s.Conns = []EConn{{Stream: st, Frags: []EFrag{{0, len(st)}}}}
		return s
	}
	nc := 1 + r.Intn(2)
	for c := 0; c < nc; c++ {
		kind := "multi"
		if profile == "single" || (profile == "mixed" && r.Bool(40)) {
			kind = "single"
		}
		st := genStream(r, c, kind, []int{80, 300, 1500}[r.Intn(3)])
		ec := EConn{Stream: st, StartMs: []int{0, 0, 3, 700}[r.Intn(4)], TailMs: []int{0, 0, 400, 1200}[r.Intn(4)]}
		// cut the stream
		timing := r.Intn(3) // 0: no pauses, 1: few pauses, 2: pauses everywhere
		rest := len(st)
		for rest > 0 {
			var l int
			switch r.Intn(4) {
			case 0:
				l = 1 + r.Intn(3)
			case 1:
				l = 1 + r.Intn(40)
			case 2:
				l = 1 + r.Intn(200)
			default:
				// cut right after / before a newline
				off := len(st) - rest
				if i := strings.IndexByte(st[off:], '\n'); i >= 0 {
					l = i + r.Intn(3)
				}
			}
			l = max(1, min(l, rest))
			p := 0
			if timing == 2 || (timing == 1 && r.Bool(15)) {
				p = ePauses[r.Intn(len(ePauses))] * s.FlushMs / 500
			}
			ec.Frags = append(ec.Frags, EFrag{p, l})
			rest -= l
		}
		ec.Abortive = r.Bool(5)
		s.Conns = append(s.Conns, ec)
	}
	s.StopFirst = r.Bool(15)
	if profile == "mixed" && r.Bool(12) {
		// A consumer that blocks while the client has already written everything: every client write happens at one instant
		// (no pause anywhere), so whatever the agent has not read when the stall begins is waiting in the socket when it ends,
		// and reads return all of it (no segment-preserving reads in these runs). No flush pause separates any two lines of the
		// stream, so every record has to come out whole, however long the consumer took.
		ci := r.Intn(len(s.Conns))
		for fi := range s.Conns[ci].Frags {
			s.Conns[ci].Frags[fi].PauseMs = 0
		}
		s.StopFirst = false // (a stop closes connections with whatever is still unread in them; here the clients end the run)
		nrec := strings.Count(s.Conns[ci].Stream, "\n<") + 1
		s.AcceptStall = &EStall{Conn: ci, Nth: r.Intn(nrec), Ms: s.FlushMs * []int{1, 3, 5, 9, 21}[r.Intn(5)] / []int{1, 2}[r.Intn(2)]}
	}
	return s
}

// Expand: exhaustive 1-cut and 2-cut splits of the base stream, delivered without pauses
func (w *worldE) Expand(profile string, sc any, base *Outcome, r *simrt.Rand) []any {
	s := sc.(*EScenario)
	if !s.Sweep || len(s.Conns) != 1 || len(s.Conns[0].Frags) != 1 {
		return nil
	}
	st := s.Conns[0].Stream
	n := len(st)
	var out []any
	mk := func(cuts ...int) {
		c := &EScenario{FlushMs: s.FlushMs, RecordLimit: s.RecordLimit}
		ec := EConn{Stream: st}
		prev := 0
		for _, k := range cuts {
			ec.Frags = append(ec.Frags, EFrag{0, k - prev})
			prev = k
		}
		ec.Frags = append(ec.Frags, EFrag{0, n - prev})
		c.Conns = []EConn{ec}
		out = append(out, c)
	}
	for i := 1; i < n; i++ {
		mk(i)
	}
	for i := 1; i < n; i++ {
		for j := i + 1; j < n; j++ {
			mk(i, j)
		}
	}
	return out
}

func (w *worldE) Shrink(sc any) []any {
	s := sc.(*EScenario)
	var out []any
	clone := func() *EScenario {
		b, _ := json.Marshal(s)
		var c EScenario
		_ = json.Unmarshal(b, &c)
		c.Sweep = false
		return &c
	}
	if len(s.Conns) > 1 && s.AcceptStall == nil {
		for i := range s.Conns {
			c := clone()
			c.Conns = append(c.Conns[:i], c.Conns[i+1:]...)
			out = append(out, c)
		}
	}
	if s.AcceptStall != nil {
		c := clone()
		c.AcceptStall = nil
		out = append(out, c)
		if s.AcceptStall.Nth > 0 {
			c = clone()
			c.AcceptStall.Nth--
			out = append(out, c)
		}
	}
	for ci, ec := range s.Conns {
		// drop the last line of the stream
		if i := strings.LastIndexByte(strings.TrimSuffix(ec.Stream, "\n"), '\n'); i >= 0 {
			c := clone()
			c.Conns[ci].Stream = ec.Stream[:i+1]
			c.Conns[ci].Frags = refrag(ec.Frags, i+1)
			out = append(out, c)
		}
		// drop the first line
		if i := strings.IndexByte(ec.Stream, '\n'); i >= 0 && i+1 < len(ec.Stream) {
			c := clone()
			c.Conns[ci].Stream = ec.Stream[i+1:]
			c.Conns[ci].Frags = []EFrag{{0, len(ec.Stream) - i - 1}}
			out = append(out, c)
		}
		// merge two adjacent fragments
		for i := 0; i+1 < len(ec.Frags); i++ {
			c := clone()
			f := c.Conns[ci].Frags
			f[i].Len += f[i+1].Len
			c.Conns[ci].Frags = append(f[:i+1], f[i+2:]...)
			out = append(out, c)
		}
		for i, f := range ec.Frags {
			if f.PauseMs != 0 {
				c := clone()
				c.Conns[ci].Frags[i].PauseMs = 0
				out = append(out, c)
			}
		}
		if ec.StartMs != 0 || ec.TailMs != 0 {
			c := clone()
			c.Conns[ci].StartMs, c.Conns[ci].TailMs = 0, 0
			out = append(out, c)
		}
	}
	if s.StopFirst {
		c := clone()
		c.StopFirst = false
		out = append(out, c)
	}
	return out
}

func refrag(fr []EFrag, n int) []EFrag {
	var out []EFrag
	for _, f := range fr {
		if n <= 0 {
			break
		}
		l := min(f.Len, n)
		out = append(out, EFrag{f.PauseMs, l})
		n -= l
	}
	return out
}

type eSink struct {
	r      *eRun
	addr   string
	msgs   []string
	flush  int
	closed bool
}

func (s *eSink) Accept(m []byte) {
	simrt.Yield("e.sink.Accept")
	// the interface says the slice is not usable after Accept returns: copy now
	s.msgs = append(s.msgs, string(m))
	if st := s.r.s.AcceptStall; st != nil && st.Conn < len(s.r.addrOf) && s.r.addrOf[st.Conn] == s.addr && len(s.msgs)-1 == st.Nth {
		s.r.out.fault("consumer_blocks_in_accept", 1)
		simrt.Sleep("e.sink.Accept.stall", ms(st.Ms))
	}
}
func (s *eSink) Flush() { s.flush++ }
func (s *eSink) Close() {
	simrt.Yield("e.sink.Close")
	s.closed = true
	s.r.notify()
}

type eRun struct {
	s      *EScenario
	out    *Outcome
	ev     chan struct{}
	sinks  map[string]*eSink
	logbuf bytes.Buffer
	addrOf []string // client local address per scenario connection
	notes  []string
	writes map[string][][2]time.Time // per client address: (time before, time after) each write
}

func (r *eRun) notify() {
	close(r.ev)
	r.ev = make(chan struct{})
}

func (r *eRun) NewSink(clientAddress string, clientNumber base.ClientNumber) base.MessageReceiverSink {
	simrt.Yield("e.NewSink")
	s := &eSink{r: r, addr: clientAddress}
	r.sinks[clientAddress] = s
	return s
}

func (w *worldE) Run(t *testing.T, profile string, sc any, cfg simrt.Config) *Outcome {
	s := sc.(*EScenario)
	cfg.FineYields = s.Fine
	out := &Outcome{}
	r := &eRun{s: s, out: out, sinks: map[string]*eSink{}, writes: map[string][][2]time.Time{}}
	logger.SetOutput(&r.logbuf)
	logger.SetLogLevel(logger.DebugLevel) // the listener reports why it flushes at debug level (rule renewal-flush-cadence)
	cfg.MaxSimTime = 10 * time.Hour
	out.Res = simrt.Run(t, cfg, r.drive)
	out.Log = r.logbuf.String()
	r.evaluate(out)
	return out
}

func (r *eRun) drive() {
	s := r.s
	r.ev = make(chan struct{})
	simnet.Reset()
	defs.InputFlushInterval = ms(s.FlushMs)
	defs.InputLogMaxRecordBytes = s.RecordLimit
	defs.ListenerLineBufferSize = s.RecordLimit * 4
	defs.IntermediateChannelTimeout = 60 * time.Second
	stop := channels.NewSignalAwaitable()
	var lsnr base.LogListener
	var addr string
	var err error
	runAs("agent.start", 1, func() {
		lsnr, addr, err = tcplistener.NewTCPLineListener(logger.Root(), "localhost:0", syslogprotocol.TestRecordStart, r, stop)
		if err == nil {
			lsnr.Start()
		}
	})
	if err != nil {
		r.out.Harness = "listen: " + err.Error()
		return
	}
	r.addrOf = make([]string, len(s.Conns))
	done := make([]bool, len(s.Conns))
	for ci := range s.Conns {
		ci := ci
		ec := &s.Conns[ci]
		simrt.GoNamed(fmt.Sprintf("client%d", ci), 0, func() {
			if ec.StartMs > 0 {
				simrt.Sleep("e.client.start", ms(ec.StartMs))
			}
			c, err := simnet.Connect(addr)
			if err != nil {
				r.out.Harness = "connect: " + err.Error()
				return
			}
			c.Peer().SegmentReads = s.AcceptStall == nil
			r.addrOf[ci] = c.LocalAddr().String()
			off := 0
			for _, f := range ec.Frags {
				if f.PauseMs > 0 {
					simrt.Sleep("e.client.pause", ms(f.PauseMs))
					if f.PauseMs*2 >= s.FlushMs {
						r.out.fault("pause_around_flush_interval", 1)
					}
				}
				w0 := time.Now()
				if _, werr := c.Write([]byte(ec.Stream[off : off+f.Len])); werr != nil {
					r.out.Harness = "client write: " + werr.Error()
					return
				}
				r.writes[r.addrOf[ci]] = append(r.writes[r.addrOf[ci]], [2]time.Time{w0, time.Now()})
				off += f.Len
			}
			if len(ec.Frags) > 1 {
				r.out.fault("read_fragmentation", len(ec.Frags)-1)
			}
			if s.StopFirst {
				done[ci] = true
				r.notify()
				return
			}
			if ec.TailMs > 0 {
				simrt.Sleep("e.client.tail", ms(ec.TailMs))
			}
			if ec.Abortive {
				// everything written has to be read by the agent first, otherwise a reset legitimately destroys it
				for c.Peer().Buffered() > 0 {
					simrt.Sleep("e.client.drainwait", time.Millisecond)
				}
				c.Reset()
				r.out.fault("client_reset", 1)
			} else {
				_ = c.Close()
			}
			done[ci] = true
			r.notify()
		})
	}
	all := func() bool {
		for ci := range s.Conns {
			if !done[ci] {
				return false
			}
		}
		return true
	}
	for !all() {
		waitEv("e.driver.clients", r.ev, -1)
	}
	if s.StopFirst {
		// let the agent read and flush everything, then stop it
		simrt.Sleep("e.driver.settle", ms(s.FlushMs)*5)
		r.out.fault("stop_request_closes_connections", 1)
	} else {
		closed := func() bool {
			for ci := range s.Conns {
				sk := r.sinks[r.addrOf[ci]]
				if sk == nil || !sk.closed {
					return false
				}
			}
			return true
		}
		deadline := simrt.Now() + 30*time.Second
		for !closed() && simrt.Now() < deadline {
			waitEv("e.driver.sinks", r.ev, deadline-simrt.Now())
		}
		if !closed() {
			r.notes = append(r.notes, "wedged\x00connection task did not end within 30s after its client closed")
		}
	}
	stop.Signal()
	if !lsnr.Stopped().Wait(2 * defs.IntermediateChannelTimeout) {
		r.notes = append(r.notes, "wedged\x00listener did not stop")
	}
}

type refRecord struct {
	head  string
	conts []string
}

// reference framer: split on newlines; a line passing the documented start test begins a record; other lines attach to
// the current record (lines before the first record form the leading garbage block)
func referenceFrame(stream string) (leading []string, recs []refRecord) {
	lines := strings.Split(strings.TrimSuffix(stream, "\n"), "\n")
	for _, ln := range lines {
		if syslogprotocol.TestRecordStart([]byte(ln)) {
			recs = append(recs, refRecord{head: ln})
		} else if len(recs) == 0 {
			leading = append(leading, ln)
		} else {
			recs[len(recs)-1].conts = append(recs[len(recs)-1].conts, ln)
		}
	}
	return
}

func (r *eRun) evaluate(out *Outcome) {
	s := r.s
	prop := "C08"
	if out.Res.Crash != nil {
		c := out.Res.Crash
		out.violate(prop, "crash", c.TopFrame("slog-agent", "gotils"), "goroutine %s panicked: %s\n%s", c.G, c.Value, c.Stack)
		return
	}
	if out.Res.Stuck {
		out.violate(prop, "stuck", "driver", "driver stuck: %s", out.Res.StuckInfo)
		return
	}
	if out.Res.CapHit != "" {
		out.Harness = "run hit cap " + out.Res.CapHit
		return
	}
	if out.Harness != "" {
		return
	}
	for _, n := range r.notes {
		p := strings.SplitN(n, "\x00", 2)
		out.violate(prop, p[0], p[0], "%s", p[1])
	}
	// flushes forced after a successful read come with a renewal of the read deadline, and the deadline is renewed only when
	// less than the flush interval of it is left: two such flushes of one connection are at least a flush interval apart.
	// (A flush after every read would cut multi-line records although no pause separates their lines.)
	// (two of them can coincide: the baseline is not refreshed by an idle timeout, so the first read after one is followed by
	// a forced flush, and a genuine renewal can fall on the very next read - hence the rule looks at every third one)
	lastForced := map[string][]time.Time{}
	for _, ln := range strings.Split(out.Log, "\n") {
		if !strings.Contains(ln, "flush input for deadline update") {
			continue
		}
		ts, client := logField(ln, "time"), logField(ln, "client")
		t, err := time.Parse(time.RFC3339Nano, ts)
		if err != nil || client == "" {
			continue
		}
		out.Obligations++
		h := append(lastForced[client], t)
		if n := len(h); n >= 3 && t.Sub(h[n-3]) < ms(s.FlushMs)-time.Millisecond {
			out.violate(prop, "renewal-flush-cadence", "renewal-flush-cadence", "connection %s: three flushes forced after reads within %v (flush interval %dms): the listener flushes more often than the read deadline is renewed", client, t.Sub(h[n-3]), s.FlushMs)
			break
		}
		lastForced[client] = h
	}
	// a flush for idleness follows a read that timed out, and a read can only time out after it has waited a flush interval
	// or longer (the deadline is renewed at the start of every read that has less than that left): bytes written less than
	// a flush interval before an idle flush do not exist. (An idle flush after a shorter silence cuts a multi-line record
	// whose lines are separated by no flush pause.) Writes at the very instants t and t-interval are ties and allowed.
IDLE:
	for _, ln := range strings.Split(out.Log, "\n") {
		if logField(ln, "msg") != "flush input" {
			continue
		}
		ts, client := logField(ln, "time"), logField(ln, "client")
		t, err := time.Parse(time.RFC3339Nano, ts)
		if err != nil || client == "" {
			continue
		}
		out.Obligations++
		for _, w := range r.writes[client] {
			if w[0].After(t.Add(-ms(s.FlushMs))) && w[1].Before(t) {
				out.violate(prop, "idle-flush-without-pause", "idle-flush-without-pause", "connection %s: flushed for idleness only %v after the client wrote (flush interval %dms): a read timed out before it had waited one flush interval", client, t.Sub(w[1]), s.FlushMs)
				break IDLE
			}
		}
	}
	for ci, ec := range s.Conns {
		sk := r.sinks[r.addrOf[ci]]
		if sk == nil {
			out.violate(prop, "no-sink", "no-sink", "connection %d never got a sink", ci)
			continue
		}
		_, recs := referenceFrame(ec.Stream)
		singleOnly := true
		nonStart := map[string]int{}
		for _, ln := range strings.Split(strings.TrimSuffix(ec.Stream, "\n"), "\n") {
			if !syslogprotocol.TestRecordStart([]byte(ln)) {
				nonStart[ln]++
				singleOnly = false
			}
		}
		totalPause := ec.StartMs * 0
		for _, f := range ec.Frags {
			totalPause += f.PauseMs
		}
		noFlushClass := totalPause < s.FlushMs
		// set aside messages that fail the start test: they may only consist of non-start lines, each used at most once
		var framed []string
		for _, m := range sk.msgs {
			out.Obligations++
			// (the start test looks at the length too: it is a property of the first LINE of a message, not of the message)
			if syslogprotocol.TestRecordStart([]byte(strings.SplitN(m, "\n", 2)[0])) {
				framed = append(framed, m)
				continue
			}
			for _, ln := range strings.Split(m, "\n") {
				if nonStart[ln] <= 0 {
					out.violate(prop, "garbage-invented", "garbage-invented", "connection %d: message failing the start test contains line %q that is not an unused non-start line of the stream", ci, ln)
					break
				}
				nonStart[ln]--
			}
		}
		// heads: each exactly once and in order
		ri := 0
		for _, m := range framed {
			out.Obligations++
			lines := strings.Split(m, "\n")
			if ri >= len(recs) {
				out.violate(prop, "extra-record", "extra-record", "connection %d: emitted record %q beyond the %d records of the stream", ci, lines[0], len(recs))
				break
			}
			ref := recs[ri]
			if lines[0] != ref.head {
				out.violate(prop, "head-mismatch", "head-mismatch", "connection %d: record #%d starts with %q, reference framer says %q", ci, ri, lines[0], ref.head)
				break
			}
			conts := lines[1:]
			if len(conts) > len(ref.conts) {
				out.violate(prop, "foreign-lines", "foreign-lines", "connection %d: record %q carries %d continuation lines, the stream has %d", ci, ref.head, len(conts), len(ref.conts))
				break
			}
			bad := false
			for i := range conts {
				if conts[i] != ref.conts[i] {
					out.violate(prop, "foreign-lines", "foreign-lines", "connection %d: record %q continuation line %d is %q, stream has %q", ci, ref.head, i, conts[i], ref.conts[i])
					bad = true
					break
				}
			}
			if bad {
				break
			}
			if len(conts) < len(ref.conts) {
				if noFlushClass {
					out.violate(prop, "split-without-pause", "split-without-pause", "connection %d: record %q lost %d continuation lines although the whole stream arrived within less than the flush interval", ci, ref.head, len(ref.conts)-len(conts))
					break
				}
				r.out.probe("record_split_by_flush", 1)
			}
			ri++
		}
		if ri < len(recs) && len(out.Violations) == 0 {
			out.violate(prop, "missing-record", "missing-record", "connection %d: %d of %d records were never emitted (first missing: %q)", ci, len(recs)-ri, len(recs), recs[ri].head)
		}
		if singleOnly {
			r.out.probe("single_line_stream", 1)
		}
		if noFlushClass {
			r.out.probe("no_flush_class", 1)
		}
	}
	if simnet.W != nil {
		out.probe("reads_issued_with_expired_deadline_while_data_waits", simnet.W.Stats.ExpiredDeadlineReadsWithDataWaiting)
	}
	nf := 0
	for _, v := range out.Faults {
		nf += v
	}
	out.Nontrivial = nf > 0 && out.Obligations > 0
	if len(s.Conns) > 0 {
		sk := r.sinks[r.addrOf[0]]
		var msgs []string
		if sk != nil {
			msgs = sk.msgs
		}
		out.Sample = map[string]any{"scenario": s, "emitted_conn0": msgs}
	}
}

// logField extracts key="value" or key=value from a logrus text line
func logField(line, key string) string {
	i := strings.Index(line, key+"=")
	if i < 0 {
		return ""
	}
	rest := line[i+len(key)+1:]
	if strings.HasPrefix(rest, "\"") {
		if j := strings.Index(rest[1:], "\""); j >= 0 {
			return rest[1 : 1+j]
		}
		return ""
	}
	if j := strings.IndexByte(rest, ' '); j >= 0 {
		return rest[:j]
	}
	return rest
}
