package harness

import (
	"bytes"
	"errors"
	"fmt"
	"io"
	"strings"
	"time"

	"github.com/relex/fluentlib/protocol/forwardprotocol"
	"github.com/relex/gotils/channels"
	"github.com/relex/gotils/logger"
	"github.com/relex/gotils/promexporter/promreg"
	"github.com/relex/slog-agent/base"
	"github.com/vmihailenco/msgpack/v4"
	"verif.local/sim/simnet"
	"verif.local/sim/simrt"
)

// ---------------------------------------------------------------------------------------------------------------
// syslog clients

type aSentRec struct {
	client, seq int
	rec         ARec
	line        string
	start, end  int // byte offsets in the connection's stream [start, end)
	headEnd     int // offset after the newline of the head line
}

type aConnRec struct {
	client    int
	gen       int
	sent      []byte
	recs      []*aSentRec
	agentRead int
	addr      string
	conn      *simnet.TCPConn
	broken    bool
}

type aClientState struct {
	r     *aRun
	idx   int
	spec  *AClient
	conns []*aConnRec
	seq   int
	cur   *aConnRec
}

func (cs *aClientState) connect() bool {
	r := cs.r
	for tries := 0; tries < 2000; tries++ {
		if r.agent != nil && !r.stopping {
			c, err := simnet.Connect(aInputAddr)
			if err == nil {
				cr := &aConnRec{client: cs.idx, gen: r.agent.gen, conn: c, addr: c.LocalAddr().String()}
				c.Peer().OnRead = func(p []byte) { cr.agentRead += len(p) }
				c.Peer().FragmentReads = cs.idx%2 == 1
				cs.conns = append(cs.conns, cr)
				cs.cur = cr
				return true
			}
		}
		simrt.Sleep("a.client.reconnect", 50*time.Millisecond)
	}
	return false
}

func (cs *aClientState) run() {
	r := cs.r
	if cs.spec.StartMs > 0 {
		simrt.Sleep("a.client.start", ms(cs.spec.StartMs))
	}
	for _, bu := range cs.spec.Bursts {
		if bu.PauseMs > 0 {
			simrt.Sleep("a.client.pause", ms(bu.PauseMs))
		}
		if cs.cur == nil || cs.cur.broken || cs.cur.conn.PeerClosed() {
			if cs.cur != nil && !cs.cur.broken {
				cs.cur.broken = true
				_ = cs.cur.conn.Close()
			}
			if !cs.connect() {
				// the agent stayed down for 100 simulated seconds: the client gives up; whatever kept the agent down is judged by the stop and liveness rules
				r.out.probe("client_gave_up_connecting", 1)
				r.gaveUpConnecting = true
				return
			}
		}
		cr := cs.cur
		var buf bytes.Buffer
		base := len(cr.sent)
		var recs []*aSentRec
		for _, rec := range bu.Recs {
			cs.seq++
			line := r.s.recordLine(cs.idx, cs.seq, rec)
			sr := &aSentRec{client: cs.idx, seq: cs.seq, rec: rec, line: line, start: base + buf.Len()}
			buf.WriteString(line)
			sr.end = base + buf.Len()
			sr.headEnd = sr.start + strings.IndexByte(line, '\n') + 1
			recs = append(recs, sr)
		}
		data := buf.Bytes()
		pieces := [][]byte{data}
		if bu.CutAt > 0 && bu.CutAt < len(data) {
			pieces = [][]byte{data[:bu.CutAt], data[bu.CutAt:]}
			r.out.fault("record_split_across_writes", 1)
		}
		written := 0
		for pi, p := range pieces {
			if pi > 0 {
				simrt.Sleep("a.client.cut", ms([]int{0, 1, 600}[cs.seq%3]))
			}
			n, err := cr.conn.Write(p)
			written += n
			if err != nil {
				cr.broken = true
				break
			}
		}
		// only what was handed to the network counts as sent
		cr.sent = append(cr.sent, data[:written]...)
		for _, sr := range recs {
			if sr.start < base+written {
				cr.recs = append(cr.recs, sr)
			}
		}
	}
	if cs.spec.HoldOpen {
		return
	}
	if cs.spec.TailMs > 0 {
		simrt.Sleep("a.client.tail", ms(cs.spec.TailMs))
	}
	if cs.cur != nil && !cs.cur.broken {
		if cs.spec.Abortive {
			// everything written has to be read by the agent first, otherwise the reset legitimately destroys it
			for i := 0; cs.cur.conn.Peer().Buffered() > 0 && !cs.cur.conn.PeerClosed() && i < 5000; i++ {
				simrt.Sleep("a.client.drainwait", time.Millisecond)
			}
			if cs.cur.conn.Peer().Buffered() == 0 && !cs.cur.conn.PeerClosed() {
				cs.cur.conn.Reset()
				r.out.fault("client_reset_after_its_last_bytes", 1)
				return
			}
		}
		_ = cs.cur.conn.Close()
	}
}

// ---------------------------------------------------------------------------------------------------------------
// fake Fluentd Forward server

type aMsg struct {
	Conn    int
	Attempt int
	Step    int
	T       time.Duration
	Tag     string
	ID      string
	Size    int
	Comp    string
	Entries []forwardprotocol.EventEntry
	AckSent bool
	AckStep int
	Bytes   int
}

type aServer struct {
	r           *aRun
	l           *simnet.TCPListener
	attempts    int
	msgs        []*aMsg
	ev          chan struct{}
	stopped     bool
	conns       []*simnet.TCPConn
	decodeErr   []string
	pings       int
	addr        string
	name        string // goroutine name prefix
	healthyOnly bool   // never injects a fault (second output)
}

func newAServer(r *aRun) *aServer {
	return &aServer{r: r, ev: make(chan struct{}), addr: aUpstreamAddr, name: "fluentd"}
}

func (sv *aServer) notify() {
	close(sv.ev)
	sv.ev = make(chan struct{})
}

func (sv *aServer) behaviour(i int) AUp {
	r := sv.r
	if sv.healthyOnly {
		return AUp{Kind: "healthy"}
	}
	if i < len(r.s.Upstream) && simrt.Now() < ms(r.s.HealAtMs) {
		return r.s.Upstream[i]
	}
	return AUp{Kind: "healthy"}
}

func (sv *aServer) start() {
	r := sv.r
	sv.l = simnet.ListenHarness(sv.addr)
	sv.l.RxCap = r.s.UpRx
	pendingBeh := map[string]AUp{}
	_ = pendingBeh
	var queue []AUp
	var queueIdx []int
	sv.l.OnDial = func() simnet.DialOutcome {
		i := sv.attempts
		sv.attempts++
		b := sv.behaviour(i)
		switch b.Kind {
		case "refuse":
			r.out.fault("upstream_refuses_connection", 1)
			r.lastFaultAt = simrt.Now()
			return simnet.DialOutcome{Kind: simnet.DialRefuse}
		case "timeout":
			r.out.fault("upstream_connect_timeout", 1)
			r.lastFaultAt = simrt.Now()
			return simnet.DialOutcome{Kind: simnet.DialTimeout_}
		}
		queue = append(queue, b)
		queueIdx = append(queueIdx, i)
		return simnet.DialOutcome{Kind: simnet.DialAccept}
	}
	simrt.GoNamed(sv.name+".accept", 0, func() {
		n := 0
		for {
			c, err := sv.l.AcceptTCP()
			if err != nil {
				return
			}
			b, ai := queue[0], queueIdx[0]
			queue, queueIdx = queue[1:], queueIdx[1:]
			n++
			ci := n
			sv.conns = append(sv.conns, c)
			simrt.GoNamed(fmt.Sprintf("%s.conn%d", sv.name, ci), 0, func() { sv.serve(ci, ai, c, b) })
		}
	})
}

func (sv *aServer) stop() {
	sv.stopped = true
	_ = sv.l.Close()
	for _, c := range sv.conns {
		if !c.IsClosed() {
			_ = c.Close()
		}
	}
}

func (sv *aServer) serve(ci, attempt int, c *simnet.TCPConn, b AUp) {
	r := sv.r
	fault := func(k string) {
		r.out.fault(k, 1)
		r.lastFaultAt = simrt.Now()
	}
	healed := func() bool { return simrt.Now() >= ms(r.s.HealAtMs) }
	if b.Kind == "no_read" {
		fault("upstream_accepts_but_never_reads")
		for !c.PeerClosed() && !sv.stopped && !healed() {
			simrt.Sleep("a.fluentd.noread", 200*time.Millisecond)
		}
		if c.PeerClosed() || sv.stopped {
			_ = c.Close()
			return
		}
		b = AUp{Kind: "healthy"} // faults have stopped: the upstream starts to behave on its open connections too
	}
	if b.Kind == "reset_mid" {
		// reset at a moment unrelated to message boundaries
		simrt.GoNamed(fmt.Sprintf("fluentd.conn%d.reset", ci), 0, func() {
			for c.BytesIn < 1+b.N*150 && !c.PeerClosed() && !c.IsClosed() && !sv.stopped {
				simrt.Sleep("a.fluentd.resetwatch", time.Millisecond)
			}
			simrt.Sleep("a.fluentd.resetwatch", ms(b.DelayMs))
			if !c.IsClosed() && !c.PeerClosed() && !healed() {
				fault("upstream_reset_mid_stream")
				c.Reset()
			}
		})
	}
	dec := msgpack.NewDecoder(c)
	n := 0
	bogus := 0
	for {
		before := c.BytesIn
		var m forwardprotocol.Message
		err := dec.Decode(&m)
		if err != nil {
			var ne interface{ Timeout() bool }
			closed := errors.Is(err, io.EOF) || errors.Is(err, io.ErrUnexpectedEOF) || errors.As(err, &ne) ||
				strings.Contains(err.Error(), "closed") || strings.Contains(err.Error(), "reset")
			if !closed {
				sv.decodeErr = append(sv.decodeErr, fmt.Sprintf("conn %d message %d: %v", ci, n+1, err))
			}
			if !c.IsClosed() {
				_ = c.Close()
			}
			return
		}
		if m.Option.Chunk == "" {
			sv.pings++
			continue
		}
		n++
		am := &aMsg{Conn: ci, Attempt: attempt, Step: simrt.Steps(), T: simrt.Now(), Tag: m.Tag, ID: m.Option.Chunk, Size: m.Option.Size,
			Comp: m.Option.Compressed, Entries: m.Entries, Bytes: c.BytesIn - before}
		sv.msgs = append(sv.msgs, am)
		sv.notify()
		ackID := m.Option.Chunk
		if healed() {
			b = AUp{Kind: "healthy"} // once faults have stopped the upstream behaves on its open connections too
		}
		switch b.Kind {
		case "reset_after":
			if n > b.N {
				fault("upstream_reset_after_messages")
				c.Reset()
				return
			}
		case "close_after":
			if n > b.N {
				fault("upstream_closes_connection")
				_ = c.Close()
				return
			}
		case "never_ack":
			if n > b.N {
				fault("upstream_never_acks")
				continue
			}
		case "ack_delay":
			fault("upstream_acks_late")
			simrt.Sleep("a.fluentd.ackdelay", ms(b.DelayMs))
		case "ack_unknown":
			if bogus < b.N {
				bogus++
				fault("upstream_acks_unknown_id")
				ackID = fmt.Sprintf("bogus-%d-%d", ci, bogus)
			}
		}
		ab, _ := msgpack.Marshal(forwardprotocol.Ack{Ack: ackID})
		if _, werr := c.Write(ab); werr != nil {
			if !c.IsClosed() {
				_ = c.Close()
			}
			return
		}
		if ackID == m.Option.Chunk {
			am.AckSent = true
			am.AckStep = simrt.Steps()
			sv.notify()
		}
	}
}

// ---------------------------------------------------------------------------------------------------------------
// what the agent has read

// readRecords returns the records whose terminating newline was returned by a Read of the agent (fully read), and
// for each connection the record that was being read when the stream ended (partial tail), if any
func (r *aRun) readRecords() (full []*aSentRec, partial []*aSentRec) {
	for _, cs := range r.clients {
		for _, cr := range cs.conns {
			for _, sr := range cr.recs {
				switch {
				case sr.end <= cr.agentRead:
					full = append(full, sr)
				case sr.start < cr.agentRead:
					partial = append(partial, sr)
				}
			}
		}
	}
	return
}

func stampOf(sr *aSentRec) string { return fmt.Sprintf("c%d.n%d#", sr.client, sr.seq) }

// eventStamp extracts the record stamp from a delivered event
func eventStamp(e *forwardprotocol.EventEntry) string {
	log, _ := e.Record["log"].(string)
	if strings.HasPrefix(log, "[") {
		// a bracketed label the extractHead step did not cut (only happens to unfinished lines)
		if j := strings.Index(log, "] - "); j >= 0 {
			log = log[j+4:]
		}
	}
	if i := strings.IndexAny(log, " \n"); i >= 0 {
		log = log[:i]
	}
	return log
}

// allDelivered reports whether every fully read, unfiltered record is inside a message the upstream acknowledged
func (r *aRun) allDelivered() bool {
	if r.srv2 != nil && !r.srv2.healthyOnly && !r.allDeliveredTo(r.srv2) {
		return false
	}
	return r.allDeliveredTo(r.srv)
}

func (r *aRun) allDeliveredTo(srv *aServer) bool {
	acked := map[string]bool{}
	for _, m := range srv.msgs {
		if !m.AckSent {
			continue
		}
		for i := range m.Entries {
			acked[eventStamp(&m.Entries[i])] = true
		}
	}
	full, _ := r.readRecords()
	hostileProfile := strings.HasPrefix(r.s.Profile, "c07")
	for _, sr := range full {
		if sr.rec.Drop || sr.rec.Raw != "" {
			continue
		}
		// with hostile input the liveness question is whether the agent still works afterwards: the clean last connection
		if hostileProfile && sr.client != len(r.s.Clients)-1 {
			continue
		}
		if !acked[stampOf(sr)] {
			return false
		}
	}
	// everything the clients handed to the network must have been read as well
	for _, cs := range r.clients {
		for _, cr := range cs.conns {
			if !cr.broken && cr.gen == r.gen && cr.agentRead < len(cr.sent) {
				return false
			}
		}
	}
	return true
}

// ---------------------------------------------------------------------------------------------------------------
// Datadog output: consumer that never takes a chunk

type forwarderMaker interface {
	NewForwarder(parentLogger logger.Logger, args base.ChunkConsumerArgs, metricCreator promreg.MetricCreator) base.ChunkConsumer
}

// consumerOverride keeps the real forwarder for every output except "dd", whose HTTP client has no seam: that output
// gets a consumer that honours the ChunkConsumer contract and never takes a chunk, so that everything its chunk maker
// produces is spilled or saved to its queue root, where the oracle reads it
func (r *aRun) consumerOverride() base.ChunkConsumerOverrideCreator {
	mf := promreg.NewMetricFactory(fmt.Sprintf("simdd%d_", r.gen), nil, nil)
	return func(lg logger.Logger, name string, dec base.ChunkDecoder, args base.ChunkConsumerArgs) base.ChunkConsumer {
		if name != "dd" {
			return dec.(forwarderMaker).NewForwarder(lg, args, mf.AddOrGetPrefix("output_", []string{"output"}, []string{name}))
		}
		return &idleConsumer{args: args, stopped: channels.NewSignalAwaitable()}
	}
}

type idleConsumer struct {
	args    base.ChunkConsumerArgs
	stopped *channels.SignalAwaitable
}

func (c *idleConsumer) Start() {
	simrt.Go("harness/idleConsumer", func() {
		simrt.Recv("idleConsumer.wait", c.args.InputClosed.Channel())
		c.args.OnFinished()
		c.stopped.Signal()
	})
}

func (c *idleConsumer) Stopped() channels.Awaitable { return c.stopped }
