package harness

import (
	"bytes"
	"encoding/json"
	"fmt"
	"sort"
	"strconv"
	"strings"
	"syscall"
	"testing"
	"time"

	"github.com/c2h5oh/datasize"
	"github.com/relex/gotils/logger"
	"github.com/relex/gotils/promexporter/promext"
	"github.com/relex/gotils/promexporter/promreg"
	"github.com/relex/slog-agent/base"
	"github.com/relex/slog-agent/buffer/hybridbuffer"
	"github.com/relex/slog-agent/defs"
	"verif.local/sim/simfs"
	"verif.local/sim/simrt"
)

// World C: the real hybrid buffer (bufferer, output feeder, chunk manager/operator, queue dirs, util/files.go) on
// the simulated disk, with a chunk producer, a scripted consumer, Destroy and restart generations on the same
// directory. Decides C03 (conservation / FIFO / bounds) and C04 (disk faults and crashes).

func init() { worlds["C"] = &worldC{} }

type worldC struct{}

const cRoot = simfs.Prefix + "/q"

// CAccept is one Accept call
type CAccept struct {
	DelayMs int `json:"delay_ms"`
	Size    int `json:"size"`
}

// COp is what the consumer does with one received chunk
type COp struct {
	Kind    string `json:"kind"` // confirm | hold | stall
	DelayMs int    `json:"delay_ms"`
}

// CGen is one generation: start on the directory, accepts, consumer behaviour, destroy
type CGen struct {
	Accepts        []CAccept `json:"accepts"`
	Consumer       []COp     `json:"consumer"`       // per received chunk; beyond the list: confirm at once
	ConsumerMode   string    `json:"consumer_mode"`  // normal | never | early
	EarlyAfter     int       `json:"early_after"`    // mode early: consumer finishes after this many chunks
	StartDelayMs   int       `json:"start_delay_ms"` // consumer start delay
	DestroyDelayMs int       `json:"destroy_delay_ms"`
	DirUnusable    bool      `json:"dir_unusable"` // the queue directory cannot be created/opened in this generation
}

// CFault places one disk fault
type CFault struct {
	Gen    int    `json:"gen"`     // generation index (0-based)
	OpKind string `json:"op_kind"` // create | write | close | unlink | read | open | readdir | stat
	Nth    int    `json:"nth"`     // nth operation of that kind on a chunk file in that generation (0-based)
	Action string `json:"action"`  // short | err | kill | shortkill | shorterr
	Bytes  int    `json:"bytes"`   // for short*/kill on write: bytes written before the fault
	Errno  string `json:"errno"`   // ENOSPC | EIO | EDQUOT | EACCES
}

// CScenario is one world-C run
type CScenario struct {
	Fine         bool     `json:"fine_yields,omitempty"` // every larger function entry of the code under test is a preemption point in this run
	MemCap       int      `json:"mem_cap"`
	QueueCap     int      `json:"queue_cap"`
	MaxBufBytes  int64    `json:"max_buf_bytes"`
	BufferID     string   `json:"buffer_id"`
	SendAllAtEnd bool     `json:"send_all_at_end"`
	ICTMs        int      `json:"intermediate_channel_timeout_ms"`
	AckTimeoutMs int      `json:"ack_timeout_ms"`
	Fair         bool     `json:"feeder_fair"` // producer pauses 1ms after each Accept so the feeder reaches its blocking point
	Gens         []CGen   `json:"gens"`
	Faults       []CFault `json:"faults"`
	Unreadable   []int    `json:"unreadable_chunks"`      // chunk numbers whose file (if any) becomes unreadable before the last generation
	PlantEmpty   []int    `json:"plant_empty_before_gen"` // generations before which a zero-length file with a valid chunk name appears in the queue
	FinalHealthy bool     `json:"final_healthy_gen"`      // append a generation with a healthy consumer and no accepts
}

func (w *worldC) Decode(raw json.RawMessage) (any, error) {
	var s CScenario
	err := json.Unmarshal(raw, &s)
	return &s, err
}

func genSize(r *simrt.Rand, quota int64) int {
	switch r.Intn(5) {
	case 0:
		return 1 + r.Intn(16)
	case 1:
		return 1 + r.Intn(2000)
	case 2:
		return 1 + r.Intn(65536)
	case 3: // boundary-biased around a fraction of the quota
		q := int(quota / int64(1+r.Intn(4)))
		return max(1, q+r.Intn(5)-2)
	}
	return 100 + r.Intn(900)
}

// SetFine switches fine-grained interleaving on for this scenario
func (s *CScenario) SetFine(v bool) { s.Fine = v }

func (w *worldC) Generate(r *simrt.Rand, profile, tier string) any {
	s := &CScenario{}
	s.MemCap = r.Range(2, 10)
	s.QueueCap = r.Range(3, 40)
	if r.Bool(60) {
		s.QueueCap = r.Range(20, 60)
	}
	s.BufferID = []string{"q1", "", "a,b", "x/y"}[r.Pick(6, 1, 2, 1)]
	s.ICTMs = []int{1000, 60000}[r.Intn(2)]
	s.AckTimeoutMs = []int{2000, 120000}[r.Intn(2)]
	s.Fair = r.Bool(50)
	disk := profile == "disk" || profile == "enum"
	ngen := r.Range(1, 4)
	if profile == "enum" {
		ngen = r.Range(1, 2)
		s.MemCap = r.Range(2, 4)
	}
	total := 0
	sizes := 0
	var quotaHint int64 = int64(r.Range(1000, 200000))
	for g := 0; g < ngen; g++ {
		var gen CGen
		na := r.Range(0, 14)
		if profile == "enum" {
			na = r.Range(1, 6)
		}
		if g == 0 && na == 0 {
			na = 3
		}
		for i := 0; i < na; i++ {
			sz := genSize(r, quotaHint)
			if disk {
				sz = 1 + r.Intn(300)
				if profile == "enum" {
					sz = 1 + r.Intn(40)
				}
				if profile == "disk" && g == 0 && i == 0 && r.Intn(400) == 0 {
					// once in a while a chunk as large as the shipped outputs make them (7 MiB of records plus the envelope)
					sz = 7*1024*1024 + 1 + r.Intn(200)
					s.MaxBufBytes = 1 << 30
				}
			}
			d := 0
			if r.Bool(40) {
				d = r.Intn(2000)
			}
			gen.Accepts = append(gen.Accepts, CAccept{d, sz})
			total++
			sizes += sz
		}
		gen.ConsumerMode = []string{"normal", "never", "early"}[r.Pick(7, 1, 2)]
		gen.EarlyAfter = r.Intn(6)
		gen.StartDelayMs = []int{0, 0, 500, 30000}[r.Intn(4)]
		for i, m := 0, r.Intn(12); i < m; i++ {
			k := []string{"confirm", "confirm", "hold", "stall"}[r.Intn(4)]
			d := []int{0, 10, 3000, 200000}[r.Intn(4)]
			gen.Consumer = append(gen.Consumer, COp{k, d})
		}
		gen.DestroyDelayMs = []int{0, 1, 1000, 100000}[r.Intn(4)]
		if profile == "limits" && r.Bool(15) {
			gen.DirUnusable = true
		}
		s.Gens = append(s.Gens, gen)
	}
	switch {
	case profile == "limits" && r.Bool(70):
		// quota somewhere between one chunk and everything
		s.MaxBufBytes = int64(max(1, r.Intn(sizes+2)))
	default:
		s.MaxBufBytes = int64(sizes)*2 + 1000000
	}
	if profile != "limits" {
		s.QueueCap = total + 10
	}
	s.SendAllAtEnd = profile == "limits" && r.Bool(10)
	if disk {
		s.FinalHealthy = true
		if profile == "disk" {
			nf := r.Range(1, 3)
			for i := 0; i < nf; i++ {
				f := CFault{Gen: r.Intn(ngen), Nth: r.Intn(8)}
				f.OpKind = []string{"write", "write", "write", "create", "close", "unlink", "read"}[r.Intn(7)]
				f.Errno = []string{"ENOSPC", "EIO", "EDQUOT"}[r.Intn(3)]
				switch f.OpKind {
				case "write":
					f.Action = []string{"short", "err", "kill", "shortkill", "shorterr"}[r.Intn(5)]
					f.Bytes = r.Intn(300)
				case "read":
					f.Action = "err"
				default:
					f.Action = []string{"err", "kill"}[r.Intn(2)]
				}
				s.Faults = append(s.Faults, f)
			}
			if r.Bool(20) {
				s.Unreadable = append(s.Unreadable, r.Intn(total+1))
			}
			if r.Bool(25) {
				s.PlantEmpty = append(s.PlantEmpty, 1+r.Intn(ngen))
			}
		}
	}
	return s
}

func (w *worldC) Shrink(sc any) []any {
	s := sc.(*CScenario)
	var out []any
	clone := func() *CScenario {
		b, _ := json.Marshal(s)
		var c CScenario
		_ = json.Unmarshal(b, &c)
		return &c
	}
	if len(s.Gens) > 1 {
		for i := range s.Gens {
			ok := true
			for _, f := range s.Faults {
				if f.Gen >= i {
					ok = false
				}
			}
			if !ok && i != len(s.Gens)-1 {
				continue
			}
			c := clone()
			c.Gens = append(c.Gens[:i], c.Gens[i+1:]...)
			var fs []CFault
			for _, f := range c.Faults {
				if f.Gen < len(c.Gens) {
					fs = append(fs, f)
				}
			}
			c.Faults = fs
			out = append(out, c)
		}
	}
	for i := range s.Faults {
		c := clone()
		c.Faults = append(c.Faults[:i], c.Faults[i+1:]...)
		out = append(out, c)
	}
	if len(s.Unreadable) > 0 {
		c := clone()
		c.Unreadable = nil
		out = append(out, c)
	}
	if len(s.PlantEmpty) > 0 {
		c := clone()
		c.PlantEmpty = nil
		out = append(out, c)
	}
	for g, gen := range s.Gens {
		if len(gen.Accepts) > 0 {
			c := clone()
			c.Gens[g].Accepts = c.Gens[g].Accepts[:len(gen.Accepts)-1]
			out = append(out, c)
			if len(gen.Accepts) > 2 {
				c = clone()
				c.Gens[g].Accepts = c.Gens[g].Accepts[:len(gen.Accepts)/2]
				out = append(out, c)
			}
		}
		if len(gen.Consumer) > 0 {
			c := clone()
			c.Gens[g].Consumer = c.Gens[g].Consumer[:len(gen.Consumer)-1]
			out = append(out, c)
		}
		if gen.ConsumerMode != "normal" {
			c := clone()
			c.Gens[g].ConsumerMode = "normal"
			out = append(out, c)
		}
		if gen.StartDelayMs != 0 || gen.DestroyDelayMs != 0 {
			c := clone()
			c.Gens[g].StartDelayMs, c.Gens[g].DestroyDelayMs = 0, 0
			out = append(out, c)
		}
		for i, a := range gen.Accepts {
			if a.DelayMs != 0 {
				c := clone()
				c.Gens[g].Accepts[i].DelayMs = 0
				out = append(out, c)
			}
			if a.Size > 8 {
				c := clone()
				c.Gens[g].Accepts[i].Size = a.Size / 2
				out = append(out, c)
			}
		}
		for i, op := range gen.Consumer {
			if op.Kind != "confirm" || op.DelayMs != 0 {
				c := clone()
				c.Gens[g].Consumer[i] = COp{"confirm", 0}
				out = append(out, c)
			}
		}
	}
	return out
}

type cChunk struct {
	id         string
	num        int
	data       []byte
	gen        int // generation that produced it
	accepted   bool
	confirmed  int
	confirmGen int
	received   []int // generations in which the consumer received it
	handedBack int
}

type cRun struct {
	s             *CScenario
	profile       string
	out           *Outcome
	fs            *simfs.FS
	chunks        map[string]*cChunk
	order         []*cChunk
	ev            chan struct{}
	logbuf        bytes.Buffer
	killedGen     int
	killOp        simfs.Op
	kindCount     map[string]int // per generation: chunk-file ops by kind
	curGen        int
	inShutdown    bool
	notes         []string
	nextNum       int
	trace         []simfs.Op
	dropped       []int // per generation dropped_chunks_total
	queueDir      string
	curMF         *promreg.MetricFactory
	planted       map[string]bool
	handbackBytes int64 // bytes of chunks a finishing consumer has handed back in this generation
	startFiles    map[string]bool
	prevTotal     int64
	destroyTotal  int64
}

func (r *cRun) notify() {
	close(r.ev)
	r.ev = make(chan struct{})
}

func chunkData(num, size int) []byte {
	b := make([]byte, size)
	x := uint32(num*2654435761 + 12345)
	for i := range b {
		x = x*1664525 + 1013904223
		b[i] = byte(x >> 24)
	}
	return b
}

// chunk files and the temporary files they are written through
func isChunkPath(p string) bool { return strings.Contains(p, ".ff") }

func errnoOf(s string) syscall.Errno {
	switch s {
	case "EIO":
		return syscall.EIO
	case "EDQUOT":
		return syscall.EDQUOT
	case "EACCES":
		return syscall.EACCES
	}
	return syscall.ENOSPC
}

func (w *worldC) Run(t *testing.T, profile string, sc any, cfg simrt.Config) *Outcome {
	s := sc.(*CScenario)
	cfg.FineYields = s.Fine
	out := &Outcome{}
	r := &cRun{s: s, profile: profile, out: out, chunks: map[string]*cChunk{}, killedGen: -1, planted: map[string]bool{}}
	logger.SetOutput(&r.logbuf)
	logger.SetLogLevel(logger.InfoLevel)
	cfg.MaxSimTime = 400 * time.Hour
	out.Res = simrt.Run(t, cfg, r.drive)
	out.Log = r.logbuf.String()
	out.Aux = r.trace
	r.finish(out)
	return out
}

// Expand enumerates the fault points of the persistence steps recorded by the fault-free base run
func (w *worldC) Expand(profile string, sc any, base *Outcome, rnd *simrt.Rand) []any {
	if profile != "enum" {
		return nil
	}
	s := sc.(*CScenario)
	trace, _ := base.Aux.([]simfs.Op)
	if len(s.Faults) > 0 || len(trace) == 0 {
		return nil
	}
	var out []any
	add := func(f CFault) {
		b, _ := json.Marshal(s)
		var c CScenario
		_ = json.Unmarshal(b, &c)
		c.Faults = []CFault{f}
		out = append(out, &c)
	}
	count := map[string]int{}
	for _, op := range trace {
		if !isChunkPath(op.Path) || op.Gen < 1 || op.Gen > len(s.Gens) {
			continue
		}
		g := op.Gen - 1
		key := fmt.Sprintf("%d/%s", g, op.Kind)
		nth := count[key]
		count[key] = nth + 1
		switch op.Kind {
		case "create", "close", "rename", "unlink", "fsync":
			add(CFault{Gen: g, OpKind: op.Kind, Nth: nth, Action: "err", Errno: []string{"ENOSPC", "EIO", "EDQUOT"}[nth%3]})
			add(CFault{Gen: g, OpKind: op.Kind, Nth: nth, Action: "kill"})
		case "write":
			n := op.Len
			offs := map[int]bool{0: true, 1: true, n / 2: true, n - 1: true, n: true}
			if n > 4 {
				offs[rnd.Intn(n)] = true
				offs[rnd.Intn(n)] = true
			}
			ks := make([]int, 0, len(offs))
			for k := range offs {
				if k >= 0 && k <= n {
					ks = append(ks, k)
				}
			}
			sort.Ints(ks)
			for _, k := range ks {
				if k < n {
					add(CFault{Gen: g, OpKind: "write", Nth: nth, Action: "short", Bytes: k})
				}
				add(CFault{Gen: g, OpKind: "write", Nth: nth, Action: "shorterr", Bytes: k, Errno: []string{"ENOSPC", "EIO", "EDQUOT"}[k%3]})
				add(CFault{Gen: g, OpKind: "write", Nth: nth, Action: "shortkill", Bytes: k})
			}
		}
		if len(out) > 600 {
			break
		}
	}
	return out
}

func (r *cRun) hook(op simfs.Op) simfs.Action {
	if !isChunkPath(op.Path) {
		return simfs.Action{}
	}
	g := op.Gen - 1
	key := fmt.Sprintf("%d/%s", g, op.Kind)
	n := r.kindCount[key]
	r.kindCount[key] = n + 1
	for _, f := range r.s.Faults {
		if f.Gen != g || f.OpKind != op.Kind || f.Nth != n {
			continue
		}
		a := simfs.Action{}
		switch f.Action {
		case "short":
			a.ShortSet, a.Short = true, min(f.Bytes, max(0, op.Len-1))
			r.out.fault("short_write", 1)
		case "err":
			a.Err = errnoOf(f.Errno)
			r.out.fault(op.Kind+"_error_"+f.Errno, 1)
		case "shorterr":
			a.ShortSet, a.Short = true, min(f.Bytes, op.Len)
			a.Err = errnoOf(f.Errno)
			r.out.fault("write_partial_then_"+f.Errno, 1)
		case "kill":
			a.Kill = true
			if op.Kind == "write" {
				a.ShortSet, a.Short = true, op.Len // the write completed, then the process died
			}
			r.out.fault("kill_at_"+op.Kind, 1)
		case "shortkill":
			a.Kill = true
			a.ShortSet, a.Short = true, min(f.Bytes, op.Len)
			r.out.fault("kill_mid_write", 1)
		}
		return a
	}
	return simfs.Action{}
}

func (r *cRun) drive() {
	s := r.s
	r.ev = make(chan struct{})
	r.fs = simfs.Reset()
	r.fs.KeepTrace = true
	r.kindCount = map[string]int{}
	r.fs.Hook = r.hook
	r.fs.OnKill = func(gen int) {
		r.killedGen = gen - 1
		r.out.probe("generation_killed", 1)
		r.notify()
	}
	defs.BufferMaxNumChunksInMemory = s.MemCap
	defs.BufferMaxNumChunksInQueue = s.QueueCap
	defs.IntermediateChannelTimeout = ms(s.ICTMs)
	defs.ForwarderBatchAckTimeout = ms(s.AckTimeoutMs)
	defs.BufferShutDownTimeout = defs.ForwarderBatchAckTimeout + defs.IntermediateChannelTimeout*2
	r.fs.MkdirAllRaw(cRoot)

	gens := append([]CGen(nil), s.Gens...)
	if s.FinalHealthy {
		gens = append(gens, CGen{ConsumerMode: "normal", DestroyDelayMs: 600000})
	}
	for g := range gens {
		r.curGen = g
		r.inShutdown = false
		if g == len(gens)-1 {
			for _, num := range s.Unreadable {
				for _, c := range r.order {
					if c.num == num && r.queueDir != "" {
						if r.fs.SetUnreadable(r.queueDir+"/"+c.id, true) {
							r.out.fault("unreadable_file", 1)
						}
					}
				}
			}
		}
		for _, pg := range s.PlantEmpty {
			if pg == g && r.queueDir != "" {
				// what a crash of an older, non-atomic writer (or an operator's mistake) leaves behind: must be treated as
				// corrupt, never forwarded, and must not block the chunks around it
				name := fmt.Sprintf("%019d-%08d.ff", time.Now().UnixNano()-int64(25*time.Millisecond), 999000+g)
				r.fs.PutFile(r.queueDir+"/"+name, nil)
				r.planted[name] = true
				r.out.fault("planted_zero_length_file", 1)
			}
		}
		r.runGen(g, &gens[g], g == len(gens)-1 && s.FinalHealthy)
		// a restart is never within the same instant: chunk ids and file times are clock-derived
		simrt.Sleep("c.driver.restart", 50*time.Millisecond)
	}
	r.trace = r.fs.Trace
}

func (r *cRun) metric(mf *promreg.MetricFactory, name string) int {
	dump := promext.DumpMetrics("", true, false, mf)
	for _, ln := range strings.Split(dump, "\n") {
		if strings.HasPrefix(ln, name+" ") || strings.HasPrefix(ln, name+"{") {
			f := strings.Fields(ln)
			v, _ := strconv.ParseFloat(f[len(f)-1], 64)
			return int(v)
		}
	}
	return 0
}

func (r *cRun) runGen(g int, gen *CGen, final bool) {
	s := r.s
	sutGen := g + 1
	if gen.DirUnusable {
		r.fs.SetUnusable(cRoot, true)
		if r.queueDir != "" {
			r.fs.SetUnusable(r.queueDir, true)
		}
		r.out.fault("unusable_directory", 1)
	} else {
		r.fs.SetUnusable(cRoot, false)
		if r.queueDir != "" {
			r.fs.SetUnusable(r.queueDir, false)
		}
	}
	mf := promreg.NewMetricFactory("c_", nil, nil)
	r.curMF = mf
	r.startFiles = map[string]bool{}
	r.prevTotal = 0
	r.handbackBytes = 0
	for id, d := range r.files() {
		r.startFiles[id] = true
		r.prevTotal += int64(len(d))
	}
	cfg := &hybridbuffer.Config{RootPath: cRoot, MaxBufSize: datasize.ByteSize(s.MaxBufBytes)}
	match := func(id string) bool { return strings.HasSuffix(id, ".ff") }

	done := false // generation finished gracefully
	var destroyTook time.Duration
	var destroyBound time.Duration

	simrt.GoNamed(fmt.Sprintf("gen%d.main", g), sutGen, func() {
		simrt.SetChildGen(sutGen)
		buf := cfg.NewBufferer(logger.WithField("gen", g), s.BufferID, match, mf, s.SendAllAtEnd)
		if qd, ok := buf.(interface{ QueueDirPath() string }); ok {
			r.queueDir = qd.QueueDirPath()
		}
		// files present at start: what recovery may see
		buf.Start()
		args := buf.RegisterNewConsumer()
		simrt.GoNamed(fmt.Sprintf("gen%d.consumer", g), sutGen, func() { r.consumer(g, gen, args) })

		for _, a := range gen.Accepts {
			if a.DelayMs > 0 {
				simrt.Sleep("c.producer", ms(a.DelayMs))
			}
			r.nextNum++
			num := r.nextNum
			// ids like the real generator: time + sequence, strictly increasing
			id := fmt.Sprintf("%019d-%08d.ff", time.Now().UnixNano(), num)
			c := &cChunk{id: id, num: num, data: chunkData(num, a.Size), gen: g, accepted: true}
			r.chunks[id] = c
			r.order = append(r.order, c)
			t0 := simrt.Now()
			buf.Accept(base.LogChunk{ID: id, Data: append([]byte(nil), c.data...)})
			r.out.Obligations++
			if d := simrt.Now() - t0; d != 0 {
				r.note("C03", "accept-blocked", "Accept of chunk %d took %v of simulated time (it must never wait)", num, d)
			}
			r.checkDuring(g)
			if s.Fair {
				simrt.Sleep("c.producer.fair", time.Millisecond)
				r.checkMemory(g)
			}
		}
		if gen.DestroyDelayMs > 0 {
			simrt.Sleep("c.producer.tail", ms(gen.DestroyDelayMs))
		}
		r.inShutdown = true
		r.destroyTotal = 0
		for _, d := range r.files() {
			r.destroyTotal += int64(len(d))
		}
		t0 := simrt.Now()
		if s.SendAllAtEnd || gen.DirUnusable {
			destroyBound = defs.BufferShutDownTimeout + 2*defs.IntermediateChannelTimeout
		} else {
			destroyBound = defs.BufferShutDownTimeout + defs.IntermediateChannelTimeout
		}
		buf.Destroy()
		destroyTook = simrt.Now() - t0
		// the pipeline waits for nothing else; give the feeder the chance to finish (it may legitimately still wait for the consumer)
		buf.Stopped().Wait(defs.IntermediateChannelTimeout)
		done = true
		r.notify()
	})
	for !done && r.killedGen != g {
		waitEv("c.driver.gen", r.ev, -1)
	}
	if r.killedGen == g {
		return
	}
	r.out.Obligations++
	if destroyTook > destroyBound+time.Second {
		r.note("C03", "destroy-bound", "Destroy took %v, more than its own timeout bound %v", destroyTook, destroyBound)
	}
	// the process exits: whatever goroutine of this generation is still around dies with it
	simrt.FreezeGen(sutGen)
	r.fs.DropHandlesOf(sutGen)
	dropped := r.metric(mf, "c_dropped_chunks_total")
	r.dropped = append(r.dropped, dropped)
	if strings.Contains(r.logbuf.String(), "queue overflow, drop") {
		r.out.fault("queue_overflow", 1)
	}
	if strings.Contains(r.logbuf.String(), "space limit reached") {
		r.out.fault("space_limit", 1)
	}
	r.checkEndOfGen(g, gen, dropped, final)
}

func (r *cRun) note(prop, rule, format string, args ...any) {
	r.notes = append(r.notes, prop+"\x00"+rule+"\x00"+fmt.Sprintf(format, args...))
}

func (r *cRun) consumer(g int, gen *CGen, args base.ChunkConsumerArgs) {
	if gen.StartDelayMs > 0 {
		simrt.Sleep("c.consumer.start", ms(gen.StartDelayMs))
	}
	var held []base.LogChunk
	finish := func() {
		for _, c := range held {
			if cc := r.chunks[c.ID]; cc != nil {
				cc.handedBack++
			}
			// a consumer that ends saves what it holds while the producer may be spilling: these are "the chunks being saved
			// concurrently at shutdown" of the statement's allowance, also when it is only the consumer that shuts down
			r.handbackBytes += int64(len(c.Data))
			args.OnChunkLeftover(c)
		}
		args.OnFinished()
	}
	if gen.ConsumerMode == "never" {
		simrt.Recv("c.consumer.never", args.InputClosed.Channel())
		finish()
		return
	}
	n := 0
	lastID := ""
	for {
		if gen.ConsumerMode == "early" && n >= gen.EarlyAfter {
			r.out.probe("consumer_stopped_early", 1)
			finish()
			return
		}
		sel := simrt.Select("c.consumer", false, simrt.RecvCase(args.InputChannel), simrt.RecvCase(args.InputClosed.Channel()))
		if sel.I == 1 {
			finish()
			return
		}
		chunk, ok := simrt.As2(args.InputChannel, sel)
		if !ok {
			finish()
			return
		}
		r.received(g, chunk, &lastID)
		op := COp{"confirm", 0}
		if n < len(gen.Consumer) {
			op = gen.Consumer[n]
		}
		n++
		// every wait of the consumer ends at the stop signal: the ChunkConsumer contract requires it to initiate
		// shutdown at the end of InputChannel or at InputClosed (the real client aborts its connection)
		interrupted := false
		if op.Kind == "hold" {
			held = append(held, chunk)
			continue
		}
		if op.DelayMs > 0 {
			if op.Kind == "stall" {
				r.out.fault("consumer_stall", 1)
			}
			tm := time.NewTimer(ms(op.DelayMs))
			s2 := simrt.Select("c.consumer.ackwait", false, simrt.RecvCase(args.InputClosed.Channel()), simrt.RecvCase(tm.C))
			tm.Stop()
			interrupted = s2.I == 0
		}
		if interrupted {
			held = append(held, chunk)
			finish()
			return
		}
		args.OnChunkConsumed(chunk)
		if cc := r.chunks[chunk.ID]; cc != nil {
			cc.confirmed++
			cc.confirmGen = g
		}
	}
}

func (r *cRun) received(g int, chunk base.LogChunk, lastID *string) {
	r.out.Obligations++
	cc := r.chunks[chunk.ID]
	if cc == nil {
		if r.planted[chunk.ID] {
			r.note("C04", "corrupt-forwarded", "consumer received the zero-length file %s as a chunk (%d bytes)", chunk.ID, len(chunk.Data))
			return
		}
		if r.profile == "disk" || r.profile == "enum" {
			// something that is not a chunk file of this queue was recovered and forwarded (e.g. what a crash left behind)
			what := "matches no produced chunk"
			for _, c := range r.order {
				if len(chunk.Data) < len(c.data) && bytes.Equal(chunk.Data, c.data[:len(chunk.Data)]) {
					what = fmt.Sprintf("the first %d of the %d bytes of chunk %d", len(chunk.Data), len(c.data), c.num)
				} else if bytes.Equal(chunk.Data, c.data) {
					what = fmt.Sprintf("a copy of chunk %d under another name", c.num)
				}
			}
			r.note("C04", "unknown-chunk-forwarded", "consumer received %q (%d bytes), which is no chunk that was produced: %s", chunk.ID, len(chunk.Data), what)
			return
		}
		r.note("C03", "phantom", "consumer received unknown chunk %s", chunk.ID)
		return
	}
	if !bytes.Equal(chunk.Data, cc.data) {
		prop := "C03"
		if r.profile == "disk" || r.profile == "enum" {
			prop = "C04"
		}
		r.note(prop, "altered", "consumer received chunk %d (%s) with %d bytes, produced with %d bytes: %s", cc.num, cc.id, len(chunk.Data), len(cc.data), diffAt(chunk.Data, cc.data))
	}
	if cc.confirmed > 0 {
		r.note("C03", "redelivered-after-confirm", "chunk %d was confirmed in generation %d and delivered again in generation %d", cc.num, cc.confirmGen, g)
	}
	if *lastID != "" && !(*lastID < chunk.ID) {
		r.note("C03", "fifo", "consumer received %s after %s", chunk.ID, *lastID)
	}
	*lastID = chunk.ID
	cc.received = append(cc.received, g)
}

func diffAt(a, b []byte) string {
	n := min(len(a), len(b))
	for i := 0; i < n; i++ {
		if a[i] != b[i] {
			return fmt.Sprintf("first difference at byte %d", i)
		}
	}
	return fmt.Sprintf("common prefix of %d bytes", n)
}

// chunk files currently in the queue directory: id -> contents
func (r *cRun) files() map[string][]byte {
	out := map[string][]byte{}
	if r.queueDir == "" {
		return out
	}
	for p, d := range r.fs.Files(r.queueDir) {
		name := p[strings.LastIndexByte(p, '/')+1:]
		if strings.HasSuffix(name, ".ff") && strings.Count(strings.TrimPrefix(p, r.queueDir+"/"), "/") == 0 {
			out[name] = d
		}
	}
	return out
}

func (r *cRun) checkDuring(g int) {
	if r.profile == "disk" || r.profile == "enum" {
		return
	}
	files := r.files()
	var total int64
	for id, d := range files {
		total += int64(len(d))
		r.out.Obligations++
		if cc := r.chunks[id]; cc != nil && cc.confirmed > 0 {
			// removal happens inside the confirmation callback, so a confirmed chunk has no file once the callback returned
			r.note("C03", "file-after-confirm", "chunk %d still has a file after it was confirmed", cc.num)
		}
	}
	r.out.Obligations++
	// a write in normal operation is only allowed while the total stays within the limit; an excess inherited from a
	// shutdown (concurrent savers) may persist but must not grow
	if total > r.s.MaxBufBytes+r.handbackBytes && total > r.prevTotal {
		r.note("C03", r.diskBoundRule(), "queue files grew from %d to %d bytes during normal operation, limit is %d", r.prevTotal, total, r.s.MaxBufBytes)
	}
	r.prevTotal = total
}

// files skipped by recovery ("too many chunk files") are not counted by the quota gauge: that cause gets its own
// identity so that any other way of exceeding the limit is still reported
func (r *cRun) diskBoundRule() string {
	if strings.Contains(r.logbuf.String(), "too many chunk files, skip") {
		return "disk-bound-after-recovery-skip"
	}
	return "disk-bound"
}

func (r *cRun) checkMemory(g int) {
	if r.profile == "disk" || r.profile == "enum" {
		return
	}
	files := r.files()
	memOnly := 0
	for _, c := range r.order {
		if c.confirmed > 0 {
			continue
		}
		if _, ok := files[c.id]; ok {
			continue
		}
		// received in this generation and not yet resolved: held by the consumer, not by the buffer
		heldByConsumer := false
		for _, rg := range c.received {
			if rg == g {
				heldByConsumer = true
			}
		}
		if heldByConsumer || c.gen != g {
			continue
		}
		memOnly++
	}
	r.out.Obligations++
	// window + the chunk in the feeder's hand + the one just accepted
	// dropped chunks are not in memory either (a drop at Accept with an unusable directory is silent in the log)
	droppedNow := 0
	if r.curMF != nil {
		droppedNow = r.metric(r.curMF, "c_dropped_chunks_total")
	}
	if memOnly-droppedNow > r.s.MemCap+2 {
		r.note("C03", "memory-bound", "%d chunks exist only in the buffer's memory, window is %d", memOnly, r.s.MemCap)
	}
}

func (r *cRun) checkEndOfGen(g int, gen *CGen, dropped int, final bool) {
	files := r.files()
	prop := "C03"
	disk := r.profile == "disk" || r.profile == "enum"
	if disk {
		prop = "C04"
	}
	lost := 0
	withFile := 0
	var lostNums []int
	var total int64
	for id, d := range files {
		total += int64(len(d))
		cc := r.chunks[id]
		if cc == nil {
			continue
		}
		r.out.Obligations++
		if cc.confirmed > 0 && r.killedGen < 0 {
			r.note("C03", "file-after-confirm", "chunk %d was confirmed but its file is still in the queue directory after shutdown", cc.num)
		}
		if !disk && !bytes.Equal(d, cc.data) {
			r.note("C03", "file-altered", "file of chunk %d differs from the accepted bytes (%s)", cc.num, diffAt(d, cc.data))
		}
	}
	inPlay := 0
	for _, c := range r.order {
		r.out.Obligations++
		if c.confirmed > 1 {
			r.note("C03", "confirmed-twice", "chunk %d confirmed %d times", c.num, c.confirmed)
		}
		// chunks in play in this generation: accepted in it, or present as a file when it started
		if !(c.gen == g || r.startFiles[c.id]) {
			continue
		}
		inPlay++
		if c.confirmed > 0 && c.confirmGen == g {
			continue
		}
		if c.confirmed > 0 {
			continue
		}
		if _, ok := files[c.id]; ok {
			withFile++
			continue
		}
		lost++
		lostNums = append(lostNums, c.num)
	}
	if r.killedGen >= 0 {
		return // after a kill the metrics of the dead generation are gone: conservation is judged by C04's delivery oracle
	}
	if disk {
		// C04's accounting clause: what is not forwarded is accounted as dropped or corrupt - the chunks that are gone and the
		// zero-length files found at start-up and removed
		plantedGone := 0
		for name := range r.planted {
			if _, still := files[name]; r.startFiles[name] && !still {
				plantedGone++
			}
		}
		r.out.Obligations++
		if lost+plantedGone > dropped {
			r.note("C04", "unaccounted", "after generation %d: %d chunks are neither delivered nor on disk and %d zero-length files were removed, but dropped_chunks_total is %d (chunks %v)", g, lost, plantedGone, dropped, lostNums)
		}
	}
	if !disk {
		if lost > dropped {
			r.note(prop, "silent-discard", "%d chunks are neither confirmed nor on disk after generation %d but only %d were counted as dropped: chunks %v", lost, g, dropped, lostNums)
		}
		if dropped-lost > withFile {
			r.note(prop, "overcounted-drop", "generation %d: dropped_chunks_total=%d but only %d chunks are gone and %d unconfirmed files remain", g, dropped, lost, withFile)
		}
		r.out.Obligations++
		var maxSz int64
		for _, c := range r.order {
			maxSz = max(maxSz, int64(len(c.data)))
		}
		if total > max(r.s.MaxBufBytes, r.destroyTotal)+2*maxSz {
			r.note(prop, r.diskBoundRule(), "queue files hold %d bytes after shutdown (%d when it began), limit is %d (+ concurrent savers)", total, r.destroyTotal, r.s.MaxBufBytes)
		}
	}
	if final && disk {
		// every chunk must have been delivered intact, or still be a file, or be accounted as dropped/corrupt; and a damaged
		// file must not have blocked the others: every chunk whose file was intact and readable has been delivered
		for _, c := range r.order {
			if c.confirmed > 0 {
				continue
			}
			d, hasFile := files[c.id]
			if hasFile && bytes.Equal(d, c.data) {
				unread := false
				for _, num := range r.s.Unreadable {
					if num == c.num {
						unread = true
					}
				}
				if !unread && gen.ConsumerMode == "normal" {
					r.note("C04", "recovery-blocked", "chunk %d has an intact file but was not delivered by the final healthy generation", c.num)
				}
			}
		}
	}
}

func (r *cRun) finish(out *Outcome) {
	if out.Res.Crash != nil {
		c := out.Res.Crash
		out.violate("", "crash", c.TopFrame("slog-agent", "gotils"), "goroutine %s panicked: %s\n%s", c.G, c.Value, c.Stack)
		return
	}
	if out.Res.Stuck {
		out.violate("", "stuck", "driver", "driver stuck with nothing runnable (a blocked Accept or Destroy?): %s", out.Res.StuckInfo)
		return
	}
	if out.Res.CapHit != "" {
		out.Harness = "run hit cap " + out.Res.CapHit
		return
	}
	seen := map[string]bool{}
	want := "C03"
	if r.profile == "disk" || r.profile == "enum" {
		want = "C04"
	}
	for _, n := range r.notes {
		p := strings.SplitN(n, "\x00", 3)
		// each check is decided only by its own property's oracle on its own fault space
		if p[0] != want || seen[p[0]+p[1]] {
			continue
		}
		seen[p[0]+p[1]] = true
		out.violate(p[0], p[1], p[1], "%s", p[2])
	}
	for _, pat := range []string{"queue overflow, drop", "space limit reached", "too many chunk files", "encountered zero-length chunk",
		"error writing chunk", "error reading chunk", "disable chunk saving due to IO error", "BUG:", "failed to wait for pending chunks"} {
		out.probe("log:"+pat, strings.Count(out.Log, pat))
	}
	if r.fs != nil {
		out.probe("fs_short_writes", r.fs.Stats.ShortWrites)
		out.probe("fs_kills", r.fs.Stats.Kills)
		out.probe("fs_ops", r.fs.OpCount())
	}
	nf := 0
	for _, v := range out.Faults {
		nf += v
	}
	out.Nontrivial = nf > 0 && out.Obligations > 0
	var cs []string
	for i, c := range r.order {
		if i >= 30 {
			cs = append(cs, "...")
			break
		}
		cs = append(cs, fmt.Sprintf("#%d size=%d gen=%d confirmed=%d received_in=%v", c.num, len(c.data), c.gen, c.confirmed, c.received))
	}
	fk := make([]string, 0, len(out.Faults))
	for k := range out.Faults {
		fk = append(fk, k)
	}
	sort.Strings(fk)
	out.Sample = map[string]any{"scenario": r.s, "chunks": cs, "faults_fired": fk, "dropped_per_gen": r.dropped}
}
