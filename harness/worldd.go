package harness

import (
	"bytes"
	"encoding/json"
	"errors"
	"fmt"
	"strings"
	"syscall"
	"testing"
	"time"

	"github.com/prometheus/client_golang/prometheus"
	"github.com/relex/gotils/channels"
	"github.com/relex/gotils/logger"
	"github.com/relex/gotils/promexporter/promreg"
	"github.com/relex/slog-agent/base"
	"github.com/relex/slog-agent/base/bsupport"
	"github.com/relex/slog-agent/defs"
	"github.com/relex/slog-agent/input/syslogparser"
	"github.com/relex/slog-agent/input/syslogprotocol"
	"github.com/relex/slog-agent/input/tcplistener"
	"github.com/relex/slog-agent/run"
	"verif.local/sim/simnet"
	"verif.local/sim/simrt"
	"verif.local/sim/simsignal"
)

// World D: the real run.ReloadableOrchestrator against recording downstream orchestrators. Level "api": connection
// tasks call NewSink/Accept/Tick/Close directly with client numbers from a lowest-free descriptor model (the
// uniqueness assumption written in the code is respected). Level "composed": the real TCP listener and parsing
// receiver sit in front of it on the simulated network, so descriptor reuse happens exactly when the real listener
// lets it happen. SIGHUP arrives through simsignal at arbitrary scheduling points. Decides the API-level part of C17.

func init() { worlds["D"] = &worldD{} }

type worldD struct{}

// DConn is one connection
type DConn struct {
	StartMs int   `json:"start_ms"`
	Ops     []int `json:"ops"` // api: 0 = Accept, 1 = Tick; composed: number of records per burst, pause before burst in PausesMs
	PauseMs []int `json:"pause_ms"`
}

// DReload is one SIGHUP
type DReload struct {
	AtMs int  `json:"at_ms"`
	Fail bool `json:"fail"` // initiateReload returns an error (invalid / incompatible configuration)
}

// DScenario is one world-D run
type DScenario struct {
	Fine    bool      `json:"fine_yields,omitempty"` // every larger function entry of the code under test is a preemption point in this run
	Level   string    `json:"level"`                 // api | composed
	Stall   int       `json:"yield_stall,omitempty"` // per mille of the scheduling points at which a goroutine of the code under test is held for 1-5 ms (at most 8 per run)
	Conns   []DConn   `json:"conns"`
	Reloads []DReload `json:"reloads"`
}

func (w *worldD) Decode(raw json.RawMessage) (any, error) {
	var s DScenario
	err := json.Unmarshal(raw, &s)
	return &s, err
}

// SetFine switches fine-grained interleaving on for this scenario
func (s *DScenario) SetFine(v bool) { s.Fine = v }

func (w *worldD) Generate(r *simrt.Rand, profile, tier string) any {
	s := &DScenario{Level: profile}
	if profile == "api2" {
		// the small case named by the property: two connections, one reload, everything at the same instant
		s.Level = "api"
		for c := 0; c < 2; c++ {
			dc := DConn{}
			for i, m := 0, r.Range(1, 3); i < m; i++ {
				dc.Ops = append(dc.Ops, r.Intn(2))
			}
			s.Conns = append(s.Conns, dc)
		}
		s.Reloads = []DReload{{0, r.Bool(25)}}
		return s
	}
	nc := r.Range(2, 4)
	if s.Level == "composed" {
		nc = r.Range(2, 6)
	}
	for c := 0; c < nc; c++ {
		dc := DConn{StartMs: []int{0, 0, 0, 1, 5}[r.Intn(5)]}
		if s.Level == "composed" && c >= 2 && r.Bool(70) {
			// start right when another connection is likely ending: descriptor reuse
			dc.StartMs = []int{0, 1, 2, 3, 600, 601}[r.Intn(6)]
		}
		for i, m := 0, r.Range(1, 5); i < m; i++ {
			if s.Level == "api" {
				dc.Ops = append(dc.Ops, r.Intn(2))
				dc.PauseMs = append(dc.PauseMs, []int{0, 0, 0, 1}[r.Intn(4)])
			} else {
				dc.Ops = append(dc.Ops, r.Range(1, 4))
				dc.PauseMs = append(dc.PauseMs, []int{0, 0, 1, 2, 600}[r.Intn(5)])
			}
		}
		s.Conns = append(s.Conns, dc)
	}
	for i, m := 0, r.Pick(1, 6, 2); i < m; i++ {
		s.Reloads = append(s.Reloads, DReload{AtMs: []int{0, 0, 1, 2, 3, 600, 601}[r.Intn(7)], Fail: r.Bool(25)})
	}
	// descheduled threads: a goroutine held for a few milliseconds between two of its steps lets connections that start a
	// little later run through the whole accept path meanwhile (the oracle of this world has no time bounds)
	if s.Level == "composed" && r.Bool(50) {
		s.Stall = []int{5, 15, 40}[r.Intn(3)]
	}
	return s
}

func (w *worldD) Shrink(sc any) []any {
	s := sc.(*DScenario)
	var out []any
	clone := func() *DScenario {
		b, _ := json.Marshal(s)
		var c DScenario
		_ = json.Unmarshal(b, &c)
		return &c
	}
	for i := range s.Conns {
		if len(s.Conns) > 1 {
			c := clone()
			c.Conns = append(c.Conns[:i], c.Conns[i+1:]...)
			out = append(out, c)
		}
	}
	for i := range s.Reloads {
		c := clone()
		c.Reloads = append(c.Reloads[:i], c.Reloads[i+1:]...)
		out = append(out, c)
	}
	if s.Stall != 0 {
		c := clone()
		c.Stall = 0
		out = append(out, c)
	}
	for i, dc := range s.Conns {
		if len(dc.Ops) > 1 {
			c := clone()
			c.Conns[i].Ops = c.Conns[i].Ops[:len(dc.Ops)-1]
			if len(c.Conns[i].PauseMs) > len(c.Conns[i].Ops) {
				c.Conns[i].PauseMs = c.Conns[i].PauseMs[:len(c.Conns[i].Ops)]
			}
			out = append(out, c)
		}
		if dc.StartMs != 0 {
			c := clone()
			c.Conns[i].StartMs = 0
			out = append(out, c)
		}
		for j, p := range dc.PauseMs {
			if p != 0 {
				c := clone()
				c.Conns[i].PauseMs[j] = 0
				out = append(out, c)
			}
		}
		for j, n := range dc.Ops {
			if s.Level == "composed" && n > 1 {
				c := clone()
				c.Conns[i].Ops[j] = 1
				out = append(out, c)
			}
		}
	}
	for i, rl := range s.Reloads {
		if rl.AtMs != 0 {
			c := clone()
			c.Reloads[i].AtMs = 0
			out = append(out, c)
		}
		if rl.Fail {
			c := clone()
			c.Reloads[i].Fail = false
			out = append(out, c)
		}
	}
	return out
}

type dOrch struct {
	r        *dRun
	id       int
	shutdown bool
	sinks    []*dSink
}

type dSink struct {
	o        *dOrch
	num      base.ClientNumber
	addr     string
	closed   bool
	inUse    string
	accepted int
}

func (o *dOrch) NewSink(clientAddress string, clientNumber base.ClientNumber) base.BufferReceiverSink {
	simrt.Yield("d.orch.NewSink")
	o.r.out.Obligations++
	if o.shutdown {
		o.r.note("R1", "newsink-after-shutdown", "NewSink(%s, %d) on orchestrator #%d after it was shut down", clientAddress, clientNumber, o.id)
	}
	s := &dSink{o: o, num: clientNumber, addr: clientAddress}
	o.sinks = append(o.sinks, s)
	return s
}

func (o *dOrch) Shutdown() {
	simrt.Yield("d.orch.Shutdown")
	for _, s := range o.sinks {
		o.r.out.Obligations++
		if !s.closed {
			o.r.note("R4", "shutdown-with-open-sink", "orchestrator #%d shut down while its sink for client %d (%s) was not closed (unflushed records)", o.id, s.num, s.addr)
		}
	}
	if o.shutdown {
		o.r.note("R4", "shutdown-twice", "orchestrator #%d shut down twice", o.id)
	}
	o.shutdown = true
}

func (s *dSink) enter(op string) {
	simrt.Yield("d.sink." + op)
	r := s.o.r
	r.out.Obligations++
	if s.o.shutdown {
		r.note("R1", "use-after-shutdown", "%s on a sink of orchestrator #%d (client %d %s) after that orchestrator was shut down", op, s.o.id, s.num, s.addr)
	}
	if s.closed {
		r.note("R3", "use-after-close", "%s on the closed sink of client %d (%s), orchestrator #%d", op, s.num, s.addr, s.o.id)
	}
	if s.inUse != "" {
		r.note("R3", "concurrent-use", "%s on the sink of client %d (%s) while %s is in progress on another goroutine", op, s.num, s.addr, s.inUse)
	}
	s.inUse = op
	simrt.Yield("d.sink." + op + ".mid")
}

func (s *dSink) Accept(buffer []*base.LogRecord) {
	s.enter("Accept")
	r := s.o.r
	for _, rec := range buffer {
		s.accepted++
		key := r.recordKey(rec)
		r.delivered[key]++
		if owner, ok := r.ownerOf(key); ok && owner != s.addr {
			r.note("R3", "foreign-sink", "record %s of connection %s was handed to the sink created for %s", key, owner, s.addr)
		}
		if r.alloc != nil {
			r.alloc.Release(rec)
		}
	}
	s.inUse = ""
}

func (s *dSink) Tick() {
	s.enter("Tick")
	s.inUse = ""
}

func (s *dSink) Close() {
	s.enter("Close")
	s.closed = true
	s.inUse = ""
}

var dLogField = syslogprotocol.RFC5424Schema.MustCreateFieldLocator("log")

type dRun struct {
	s                *DScenario
	out              *Outcome
	ev               chan struct{}
	logbuf           bytes.Buffer
	notes            []string
	orchs            []*dOrch
	delivered        map[string]int
	sent             map[string]string // record key -> owning connection address
	apiRecs          map[*base.LogRecord]string
	alloc            *base.LogAllocator
	failWant         int
	okWant           int
	reloadsDelivered int
}

func (r *dRun) note(rule, sig, format string, args ...any) {
	r.notes = append(r.notes, rule+"\x00"+sig+"\x00"+fmt.Sprintf(format, args...))
}

func (r *dRun) notify() {
	close(r.ev)
	r.ev = make(chan struct{})
}

func (r *dRun) recordKey(rec *base.LogRecord) string {
	if k, ok := r.apiRecs[rec]; ok {
		return k
	}
	// composed level: the stamp is the last word of the message field
	msg := string(dLogField.Get(rec.Fields))
	if i := strings.LastIndexByte(msg, ' '); i >= 0 {
		msg = msg[i+1:]
	}
	return msg
}

func (r *dRun) ownerOf(key string) (string, bool) {
	o, ok := r.sent[key]
	return o, ok
}

func (r *dRun) newOrch() *dOrch {
	o := &dOrch{r: r, id: len(r.orchs)}
	r.orchs = append(r.orchs, o)
	return o
}

func reloadCounts() (ok, fail float64) {
	mfs, _ := prometheus.DefaultGatherer.Gather()
	for _, mf := range mfs {
		if mf.GetName() != "slogagent_reloads_total" {
			continue
		}
		for _, m := range mf.GetMetric() {
			for _, l := range m.GetLabel() {
				if l.GetName() == "status" && l.GetValue() == "success" {
					ok = m.GetCounter().GetValue()
				}
				if l.GetName() == "status" && l.GetValue() == "failure" {
					fail = m.GetCounter().GetValue()
				}
			}
		}
	}
	return
}

func (w *worldD) Run(t *testing.T, profile string, sc any, cfg simrt.Config) *Outcome {
	s := sc.(*DScenario)
	cfg.FineYields = s.Fine
	cfg.YieldStall = s.Stall
	out := &Outcome{}
	r := &dRun{s: s, out: out, delivered: map[string]int{}, sent: map[string]string{}, apiRecs: map[*base.LogRecord]string{}}
	logger.SetOutput(&r.logbuf)
	logger.SetLogLevel(logger.InfoLevel)
	cfg.MaxSimTime = 10 * time.Hour
	ok0, fail0 := reloadCounts()
	out.Res = simrt.Run(t, cfg, r.drive)
	ok1, fail1 := reloadCounts()
	out.Log = r.logbuf.String()
	r.evaluate(out, int(ok1-ok0), int(fail1-fail0))
	return out
}

func (r *dRun) drive() {
	s := r.s
	r.ev = make(chan struct{})
	simsignal.Reset()
	simnet.Reset()
	defs.InputFlushInterval = 500 * time.Millisecond
	defs.InputLogMaxRecordBytes = 512
	defs.ListenerLineBufferSize = 2048
	defs.IntermediateChannelTimeout = 60 * time.Second
	defs.IntermediateBufferMaxNumLogs = 3

	var ro *run.ReloadableOrchestrator
	initiate := func() (run.CompleteReloadingFunc, error) {
		simrt.Yield("d.initiateReload")
		rl := DReload{}
		if r.reloadsDelivered < len(s.Reloads) {
			rl = s.Reloads[r.reloadsDelivered]
		}
		r.reloadsDelivered++
		if rl.Fail {
			r.failWant++
			r.out.fault("reload_rejected_config", 1)
			return nil, errors.New("scripted: new configuration is invalid")
		}
		r.okWant++
		r.out.fault("reload", 1)
		return func() base.Orchestrator {
			simrt.Yield("d.completeReload")
			return r.newOrch()
		}, nil
	}
	runAs("agent.start", 1, func() {
		ro = run.NewReloadableOrchestrator(r.newOrch(), initiate)
	})

	pending := len(s.Conns) + len(s.Reloads)
	taskDone := func() {
		pending--
		r.notify()
	}
	for _, rl := range s.Reloads {
		rl := rl
		simrt.GoNamed("sighup", 0, func() {
			if rl.AtMs > 0 {
				simrt.Sleep("d.sighup", ms(rl.AtMs))
			} else {
				simrt.Yield("d.sighup")
			}
			simsignal.Deliver(syscall.SIGHUP)
			taskDone()
		})
	}

	if s.Level == "api" {
		fds := map[int]bool{}
		for ci := range s.Conns {
			ci := ci
			dc := &s.Conns[ci]
			simrt.GoNamed(fmt.Sprintf("conn%d", ci), 1, func() {
				if dc.StartMs > 0 {
					simrt.Sleep("d.conn.start", ms(dc.StartMs))
				}
				fd := 7
				for fds[fd] {
					fd++
				}
				fds[fd] = true
				addr := fmt.Sprintf("conn%d", ci)
				sink := ro.NewSink(addr, base.ClientNumber(fd))
				for i, op := range dc.Ops {
					if i < len(dc.PauseMs) && dc.PauseMs[i] > 0 {
						simrt.Sleep("d.conn.pause", ms(dc.PauseMs[i]))
					}
					if op == 0 {
						rec := &base.LogRecord{Fields: make(base.LogFields, 1)}
						key := fmt.Sprintf("c%d.n%d", ci, i)
						r.apiRecs[rec] = key
						r.sent[key] = addr
						sink.Accept([]*base.LogRecord{rec})
					} else {
						sink.Tick()
					}
				}
				sink.Close()
				// the uniqueness assumption of the code is respected at this level: the number is released after Close
				delete(fds, fd)
				taskDone()
			})
		}
	} else {
		schema := syslogprotocol.RFC5424Schema
		r.alloc = base.NewLogAllocator(schema, 1)
		stop := channels.NewSignalAwaitable()
		var lsnr base.LogListener
		var addr string
		var err error
		runAs("agent.listen", 1, func() {
			mf := promreg.NewMetricFactory("d_", nil, nil)
			createParser := func(parentLogger logger.Logger, inputCounter *base.LogInputCounterSet) base.LogParser {
				return syslogparser.MustNewParser(parentLogger, r.alloc, schema, []string{"off", "fatal", "crit", "error", "warn", "notice", "info", "debug"}, inputCounter)
			}
			recv := bsupport.NewLogParsingReceiver(logger.Root(), createParser, ro, mf)
			lsnr, addr, err = tcplistener.NewTCPLineListener(logger.Root(), "localhost:0", syslogprotocol.TestRecordStart, recv, stop)
			if err == nil {
				lsnr.Start()
			}
		})
		if err != nil {
			r.out.Harness = "listen: " + err.Error()
			return
		}
		for ci := range s.Conns {
			ci := ci
			dc := &s.Conns[ci]
			simrt.GoNamed(fmt.Sprintf("client%d", ci), 0, func() {
				if dc.StartMs > 0 {
					simrt.Sleep("d.client.start", ms(dc.StartMs))
				}
				c, cerr := simnet.Connect(addr)
				if cerr != nil {
					r.out.Harness = "connect: " + cerr.Error()
					taskDone()
					return
				}
				me := c.LocalAddr().String()
				n := 0
				for i, burst := range dc.Ops {
					if i < len(dc.PauseMs) && dc.PauseMs[i] > 0 {
						simrt.Sleep("d.client.pause", ms(dc.PauseMs[i]))
					}
					var sb strings.Builder
					for k := 0; k < burst; k++ {
						n++
						key := fmt.Sprintf("c%d.n%d", ci, n)
						r.sent[key] = me
						fmt.Fprintf(&sb, "<13>1 2024-01-01T00:00:00Z host app %d - - message %s\n", ci, key)
					}
					if _, werr := c.Write([]byte(sb.String())); werr != nil {
						r.out.Harness = "client write: " + werr.Error()
						break
					}
				}
				_ = c.Close()
				taskDone()
			})
		}
		for pending > 0 {
			waitEv("d.driver.tasks", r.ev, -1)
		}
		// let the listener read everything, see EOF and close its sinks
		simrt.Sleep("d.driver.settle", 3*time.Second)
		stop.Signal()
		lsnr.Stopped().Wait(2 * defs.IntermediateChannelTimeout)
	}
	for pending > 0 {
		waitEv("d.driver.tasks", r.ev, -1)
	}
	// a SIGHUP may still be queued or a reload in progress
	simrt.Sleep("d.driver.tail", time.Second)
	runAs("agent.shutdown", 1, func() { ro.Shutdown() })
}

func (r *dRun) evaluate(out *Outcome, okGot, failGot int) {
	prop := "C17"
	if out.Res.YieldStalls > 0 {
		out.fault("descheduled_goroutine", out.Res.YieldStalls)
	}
	// One cause, many symptoms: when a new connection gets the descriptor number of a connection whose sink is not closed
	// yet, the shared slot is overwritten (crashes, foreign/concurrent sink use, lost records follow). The code itself logs
	// the precondition; runs in which it happened are reported under one identity so that every other violation of C17
	// keeps its own.
	slotReuse := strings.Contains(out.Log, "created new sink while old sink is still in place")
	if slotReuse {
		first := "slot overwritten"
		if out.Res.Crash != nil {
			first = fmt.Sprintf("goroutine %s panicked: %s in %s", out.Res.Crash.G, out.Res.Crash.Value, out.Res.Crash.TopFrame("slog-agent/run", "slog-agent"))
		} else if len(r.notes) > 0 {
			first = strings.ReplaceAll(r.notes[0], "\x00", " ")
		}
		out.violate(prop, "slot-reuse", "client-number-reused-before-sink-close",
			"a new connection was given the client number (socket descriptor) of a connection whose sink was still open; first symptom: %s", first)
		return
	}
	if out.Res.Crash != nil {
		c := out.Res.Crash
		out.violate(prop, "R6", "crash:"+c.TopFrame("slog-agent/run", "slog-agent", "gotils"), "goroutine %s panicked: %s\n%s", c.G, c.Value, c.Stack)
		return
	}
	if out.Res.Stuck {
		out.violate(prop, "stuck", "driver", "driver stuck: %s", out.Res.StuckInfo)
		return
	}
	if out.Res.CapHit != "" {
		out.Harness = "run hit cap " + out.Res.CapHit
		return
	}
	if out.Harness != "" {
		return
	}
	seen := map[string]bool{}
	for _, n := range r.notes {
		p := strings.SplitN(n, "\x00", 3)
		if seen[p[0]+p[1]] {
			continue
		}
		seen[p[0]+p[1]] = true
		out.violate(prop, p[0], p[1], "%s", p[2])
	}
	// R2: every record handed in reaches exactly one downstream sink
	for key, owner := range r.sent {
		out.Obligations++
		switch n := r.delivered[key]; {
		case n == 0:
			out.violate(prop, "R2", "record-lost", "record %s of %s never reached a downstream sink", key, owner)
		case n > 1:
			out.violate(prop, "R2", "record-duplicated", "record %s of %s reached downstream sinks %d times", key, owner, n)
		}
	}
	// R4: at the end every sink ever created is closed and every orchestrator but none is left running
	for _, o := range r.orchs {
		out.Obligations++
		if !o.shutdown {
			out.violate(prop, "R4", "orchestrator-leaked", "orchestrator #%d was never shut down", o.id)
		}
		for _, s := range o.sinks {
			if !s.closed {
				out.violate(prop, "R4", "sink-never-closed", "sink of client %d (%s) on orchestrator #%d was never closed", s.num, s.addr, o.id)
			}
		}
	}
	// R5: a rejected reload has no effect but one failure count; a successful one counts once
	out.Obligations++
	if failGot != r.failWant || okGot != r.okWant {
		out.violate(prop, "R5", "reload-count", "reload counters moved by success=%d failure=%d, expected success=%d failure=%d", okGot, failGot, r.okWant, r.failWant)
	}
	if len(r.orchs) != 1+r.okWant {
		out.violate(prop, "R5", "orchestrator-count", "%d downstream orchestrators were created for %d successful reloads", len(r.orchs), r.okWant)
	}
	out.probe("log:created new sink while old sink is still in place", strings.Count(out.Log, "created new sink while old sink"))
	if simnet.W != nil {
		out.probe("fd_reuse", simnet.W.Stats.FdReuses)
	}
	nf := 0
	for _, v := range out.Faults {
		nf += v
	}
	out.Nontrivial = nf > 0 && out.Obligations > 0
	var os_ []string
	for _, o := range r.orchs {
		for _, s := range o.sinks {
			os_ = append(os_, fmt.Sprintf("orch#%d client=%d %s accepted=%d closed=%v", o.id, s.num, s.addr, s.accepted, s.closed))
		}
	}
	out.Sample = map[string]any{"scenario": r.s, "sinks": os_}
}
