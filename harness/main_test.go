package harness

import (
	"encoding/json"
	"fmt"
	"os"
	"strconv"
	"testing"
	"time"
)

func envInt(k string, def int) int {
	if v := os.Getenv(k); v != "" {
		n, err := strconv.Atoi(v)
		if err == nil {
			return n
		}
	}
	return def
}

// TestSim is the entry point used by /verif/check: one worker process = one slice of run indices
func TestSim(t *testing.T) {
	defer func() {
		if aTmpDir != "" {
			_ = os.RemoveAll(aTmpDir)
		}
	}()
	if rp := os.Getenv("VERIF_REPLAY"); rp != "" {
		ok, detail := ReplayFile(t, rp)
		fmt.Printf("REPLAY reproduced=%v\n%s", ok, detail)
		if ok {
			fmt.Println("REPLAY-RESULT reproduced")
		} else {
			fmt.Println("REPLAY-RESULT not-reproduced")
		}
		return
	}
	world := os.Getenv("VERIF_WORLD")
	if world == "" {
		t.Skip("VERIF_WORLD not set")
	}
	base, _ := strconv.ParseUint(os.Getenv("VERIF_SEED"), 10, 64)
	sum := Worker(t, world, os.Getenv("VERIF_PROFILE"), os.Getenv("VERIF_PROPERTY"), os.Getenv("VERIF_TIER"), base,
		envInt("VERIF_FROM", 0), envInt("VERIF_TO", 10), envInt("VERIF_STRIDE", 1), os.Getenv("VERIF_REPLAY_DIR"),
		time.Duration(envInt("VERIF_WORKER_BUDGET_S", 0))*time.Second)
	b, _ := json.Marshal(sum)
	if out := os.Getenv("VERIF_OUT"); out != "" {
		if err := os.WriteFile(out, b, 0o644); err != nil {
			t.Fatal(err)
		}
	} else {
		fmt.Println(string(b))
	}
}
