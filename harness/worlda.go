package harness

import (
	"bytes"
	"encoding/json"
	"fmt"
	"os"
	"path/filepath"
	"sort"
	"strings"
	"syscall"
	"testing"
	"time"
	"unicode/utf8"

	"github.com/relex/gotils/logger"
	"github.com/relex/gotils/promexporter/promext"
	"github.com/relex/slog-agent/base"
	"github.com/relex/slog-agent/defs"
	"github.com/relex/slog-agent/output/fluentdforward"
	"github.com/relex/slog-agent/run"
	"verif.local/sim/simfs"
	"verif.local/sim/simnet"
	"verif.local/sim/simrt"
	"verif.local/sim/simsignal"
	"verif.local/sim/simsync"
)

// World A: the whole agent as run.Run assembles it - config file -> Loader/Reloader -> orchestrator, pipelines,
// hybrid buffers, Fluentd Forward clients, syslog TCP input - on the simulated network and disk, with syslog
// clients, a fake Fluentd Forward server scripted per connection attempt, graceful stop/restart generations on the
// same queue directory, SIGHUP reloads and SIGUSR1. One world, per-property profiles and oracles.

func init() { worlds["A"] = &worldA{} }

type worldA struct{}

const (
	aInputAddr    = "localhost:5140"
	aUpstreamAddr = "localhost:24224"
	aBufRoot      = simfs.Prefix + "/buf"
	// second output (only in scenarios with Out2): its own upstream, always healthy, and its own queue root
	aUpstreamAddr2 = "localhost:24225"
	aBufRoot2      = simfs.Prefix + "/buf2"
	// Datadog output (profile c11dd): never transmitted (its client is net/http, outside every seam); its chunks are read from its queue root
	aBufRootDD = simfs.Prefix + "/bufdd"
)

// ARec is one record a client sends
type ARec struct {
	Key   int    `json:"key"`             // index into the scenario's key-tuple table
	Drop  bool   `json:"drop,omitempty"`  // carries the marker the configured drop filter matches
	Fill  int    `json:"fill,omitempty"`  // filler bytes in the message
	Multi int    `json:"multi,omitempty"` // continuation lines
	Raw   rawStr `json:"raw,omitempty"`   // hostile material sent verbatim instead of a record (C07)
	TS    int    `json:"ts,omitempty"`    // timestamp variant
	Esc   bool   `json:"esc,omitempty"`   // the message carries backslash escapes for the configured unescape step
	Head  bool   `json:"head,omitempty"`  // the message starts with a bracketed label for the extractHead step
	MK    int    `json:"mk,omitempty"`    // >0: host / msgid pair chosen so that different (host, source) metric key sets have the same concatenation
}

// ABurst is a group of records written with one client write, preceded by a pause
type ABurst struct {
	PauseMs int    `json:"pause_ms"`
	Recs    []ARec `json:"recs"`
	CutAt   int    `json:"cut_at,omitempty"` // >0: the burst's bytes are written in two pieces, cut at this offset
}

// AClient is one syslog client; after an agent restart it reconnects and continues with what it has not sent yet
type AClient struct {
	StartMs  int      `json:"start_ms"`
	Bursts   []ABurst `json:"bursts"`
	TailMs   int      `json:"tail_ms"`
	HoldOpen bool     `json:"hold_open,omitempty"` // the client never closes: the connection is still open when the agent is stopped
	Abortive bool     `json:"abortive,omitempty"`  // the client ends with a reset (killed process, SO_LINGER 0, a middlebox) once the agent has read everything it sent
}

// AUp scripts one upstream connection attempt (in global order of dials)
type AUp struct {
	Kind    string `json:"kind"` // healthy | refuse | timeout | reset_after | reset_mid | never_ack | ack_delay | ack_unknown | no_read | close_after
	N       int    `json:"n,omitempty"`
	DelayMs int    `json:"delay_ms,omitempty"`
}

// AEvent is a timed event of the driver
type AEvent struct {
	AtMs int    `json:"at_ms"`
	Kind string `json:"kind"`           // restart | sigusr1 | sighup_* | clock_back | stall
	N    int    `json:"n,omitempty"`    // clock_back, stall: milliseconds
	Site string `json:"site,omitempty"` // stall: the goroutines of the agent started at this go statement (file name) do not run for N ms - a thread blocked in a system call, a paused cgroup
}

// ADiskFault is one fault on a chunk file of the on-disk queue (profile c04a): the Nth operation of that kind on a chunk file
// in that agent generation
type ADiskFault struct {
	Gen    int    `json:"gen"`
	OpKind string `json:"op"` // create | write | close | rename | open | read | unlink
	Nth    int    `json:"nth"`
	Action string `json:"action"` // short | err | shorterr | kill | shortkill
	Bytes  int    `json:"bytes,omitempty"`
	Errno  string `json:"errno,omitempty"`
	Sticky bool   `json:"sticky,omitempty"` // a full disk stays full: every later write to a chunk file in that generation fails too (nothing written)
}

// AScenario is one world-A run
type AScenario struct {
	Profile       string       `json:"profile"`
	PlantDamaged  bool         `json:"plant_damaged_files,omitempty"`               // before the last generation starts, a zero-length file with a valid chunk name and a stray temporary file appear in a queue directory
	DiskFaults    []ADiskFault `json:"disk_faults,omitempty"`                       // faults on chunk files; a kill ends the agent process, which is then started again
	Keys          []string     `json:"keys"`                                        // orchestration key fields
	MetricKeys    []string     `json:"metric_keys,omitempty"`                       // metricKeys of the configuration (default: host)
	Out2          bool         `json:"second_output,omitempty"`                     // a second output/buffer pair with different serialization settings (reference count 2 per record)
	IDFault       int          `json:"id_file_write_fails_in_generation,omitempty"` // in this agent generation every write to a queue directory's .id file fails with ENOSPC (after the truncating open)
	Umask         int          `json:"umask,omitempty"`                             // process umask (octal value as decimal int): 0, 027 or 077
	UnescIn       bool         `json:"unescape_in_extractions,omitempty"`           // the unescape step also sits among the input extractions, where records queue up after it
	AcceptErrs    []int        `json:"accept_errors_before_connection,omitempty"`   // the accept(2) that would return the k-th connection first fails once with a transient error (EMFILE)
	Fine          bool         `json:"fine_yields,omitempty"`                       // every larger function entry of the agent is a preemption point in this run
	SpawnStall    int          `json:"spawn_stall,omitempty"`                       // percentage of the agent's go statements whose goroutine starts late (1 ms .. 1.5 s of simulated time, at most 6 per run)
	YieldStall    int          `json:"yield_stall,omitempty"`                       // per mille of the scheduling points at which a goroutine of the agent is held for 1-5 ms (at most 8 per run)
	Datadog       bool         `json:"datadog_output,omitempty"`                    // a Datadog output/buffer pair whose consumer never takes a chunk: every chunk it makes ends up in its queue root
	Poison        bool         `json:"poison_released_buffers,omitempty"`           // released backing buffers are overwritten with 0xEE (in the other runs they keep their bytes until reused, which is what lets a stale reference read ANOTHER record)
	Tag           string       `json:"tag"`                                         // tag template
	KeyTuples     keyTuples    `json:"key_tuples"`                                  // values of (app, level-severity, pid) per tuple index; level is a severity number as string
	Mode          string       `json:"mode"`
	MaxDurMs      int          `json:"max_duration_ms"`
	FlushMs       int          `json:"flush_ms"`
	IBufLogs      int          `json:"intermediate_buffer_logs"`
	IBufBytes     int          `json:"intermediate_buffer_bytes,omitempty"` // 0 = the shipped 4 MiB
	MemCap        int          `json:"mem_cap"`
	ChunkMaxBytes int          `json:"chunk_max_bytes"`
	ChunkMaxRecs  int          `json:"chunk_max_records"`
	AckTimeoutMs  int          `json:"ack_timeout_ms"`
	ConnTimeoutMs int          `json:"conn_timeout_ms"`
	RetryMs       int          `json:"retry_ms"`
	PingMs        int          `json:"ping_ms"`
	ICTMs         int          `json:"intermediate_channel_timeout_ms"`
	MsgMax        int          `json:"input_max_message_bytes"`
	PoolMin       int          `json:"min_record_bytes_to_pool"`
	PoolMode      int          `json:"pool_mode"`
	UpRx          int          `json:"upstream_rx_buffer"`
	Reloader      bool         `json:"reloader"`
	Clients       []AClient    `json:"clients"`
	Upstream      []AUp        `json:"upstream"`
	HealAtMs      int          `json:"heal_at_ms"`
	Events        []AEvent     `json:"events"`
	FinalStop     bool         `json:"final_stop_without_waiting"` // stop at the end without waiting for delivery (records may stay on disk)
	QueueCap      int          `json:"queue_cap"`
	MaxBufBytes   int          `json:"max_buf_bytes"`
}

// keyTuples are the key values of the scenario; values that are not valid UTF-8 are written as {"bytes_base64": ...} because
// encoding/json would replace their bytes by U+FFFD and the replay file would describe another scenario
type keyTuples [][]string

func (k keyTuples) MarshalJSON() ([]byte, error) {
	out := make([][]any, len(k))
	for i, t := range k {
		out[i] = make([]any, len(t))
		for j, v := range t {
			if utf8.ValidString(v) {
				out[i][j] = v
			} else {
				out[i][j] = map[string][]byte{"bytes_base64": []byte(v)}
			}
		}
	}
	return json.Marshal(out)
}

func (k *keyTuples) UnmarshalJSON(b []byte) error {
	var raw [][]json.RawMessage
	if err := json.Unmarshal(b, &raw); err != nil {
		return err
	}
	*k = nil
	for _, t := range raw {
		var tuple []string
		for _, m := range t {
			var sv string
			if err := json.Unmarshal(m, &sv); err == nil {
				tuple = append(tuple, sv)
				continue
			}
			var o map[string][]byte
			if err := json.Unmarshal(m, &o); err != nil {
				return err
			}
			tuple = append(tuple, string(o["bytes_base64"]))
		}
		*k = append(*k, tuple)
	}
	return nil
}

// rawStr is a byte string that survives JSON: encoding/json would replace invalid UTF-8 by U+FFFD and a replay file would
// no longer carry the hostile bytes of the original run
type rawStr string

func (r rawStr) MarshalJSON() ([]byte, error) { return json.Marshal([]byte(r)) }

func (r *rawStr) UnmarshalJSON(b []byte) error {
	var raw []byte
	if err := json.Unmarshal(b, &raw); err != nil {
		return err
	}
	*r = rawStr(raw)
	return nil
}

func (w *worldA) Decode(raw json.RawMessage) (any, error) {
	var s AScenario
	err := json.Unmarshal(raw, &s)
	return &s, err
}

var aSeverities = []string{"off", "fatal", "crit", "error", "warn", "notice", "info", "debug"}

func (s *AScenario) configYAML(variant string) string {
	fields := "facility, level, time, host, app, pid, source, extradata, log, extra1, extra3, extra4, class, task"
	extra := ""
	switch variant {
	case "valid2":
		// a compatible change: a new field appended to the schema and another transformation, which sets it for some records only
		// (a field that every record sets would hide whatever a recycled record object still carries in that slot)
		fields += ", extra2"
		extra = "  - type: if\n    match:\n      host: h1\n    then:\n      - type: addFields\n        fields:\n          extra2: v2-$pid\n"
	case "addoutput":
		// one more (or one fewer) output/buffer pair: parses and verifies on its own; whether a running agent can take it over
		// is for the compatibility check to decide - either it is rejected or it has to work
		c := *s
		c.Out2 = !s.Out2
		return c.configYAML("")
	case "badpattern":
		// a pipeline transformation with an extraction pattern the extractor cannot run (a wildcard that nothing ends): must be
		// rejected when the configuration is verified, not blow up when the next pipeline is created
		return strings.Replace(s.configYAML(""), "transformations:\n", "transformations:\n  - type: extractTail\n    key: source\n    pattern: '*'\n    maxLen: 10\n    destKey: task\n", 1)
	case "noorchestration":
		// a whole mandatory section is missing: well-formed YAML that must fail verification, not crash the reloader
		full := s.configYAML("")
		i, j := strings.Index(full, "orchestration:\n"), strings.Index(full, "metricKeys:")
		return full[:i] + full[j:]
	case "badenvfield":
		// an output refers to a field the schema does not have: must be rejected before anything is torn down
		return strings.Replace(s.configYAML(""), "environmentFields: [host, app]", "environmentFields: [host, nosuchfield]", 1)
	case "incompatible":
		// the orchestration keys change: must be rejected at reload
		// (same number of keys in half of the scenarios: replaced or reordered; one key more or fewer in the others)
		same := len(s.Clients)%2 == 0
		keys := ""
		switch {
		case len(s.Keys) == 1 && same:
			keys = "[pid]"
		case len(s.Keys) == 1:
			keys = "[app, pid]"
		case same:
			keys = "[" + strings.Join(append(append([]string{}, s.Keys[1:]...), s.Keys[0]), ", ") + "]"
		default:
			keys = "[" + strings.Join(s.Keys[:len(s.Keys)-1], ", ") + "]"
		}
		return strings.Replace(s.configYAML(""), "keys: ["+strings.Join(s.Keys, ", ")+"]\n  tag: "+s.Tag, "keys: "+keys+"\n  tag: fixed", 1)
	case "invalid":
		return s.configYAML("") + "\nthis is: [not valid yaml\n"
	}
	unescIn := ""
	if s.UnescIn {
		unescIn = "      - type: unescape\n        key: log\n"
	}
	maxDur := fmt.Sprintf("%dms", s.MaxDurMs)
	metricKey := "host"
	if len(s.MetricKeys) > 0 {
		metricKey = strings.Join(s.MetricKeys, ", ")
	}
	return fmt.Sprintf(`schema:
  fields: [%s]
  maxFields: 16
inputs:
  - type: syslog
    address: %s
    levelMapping: [off, fatal, crit, error, warn, notice, info, debug]
    extractions:
      - type: delFields
        keys: [facility, extradata]
%s      - type: addFields
        fields:
          extra4: in-$app:$pid
      - type: extractHead
        key: log
        pattern: '\[*\] - '
        maxLen: 100
        destKey: class
      - type: extractTail
        key: source
        pattern: ':*'
        maxLen: 41
        destKey: task
orchestration:
  type: byKeySet
  keys: [%s]
  tag: %s
metricKeys: [%s]
transformations:
  - type: drop
    match:
      source: dropme
    percentage: 100
    metricLabel: marker
  - type: unescape
    key: log
  - type: parseTime
    key: time
    errorLabel: timeError
  - type: addFields
    fields:
      extra1: x-$host
  - type: if
    match:
      host: h2
    then:
      - type: addFields
        fields:
          extra3: only-$app-$pid
%soutputBufferPairs:
  - name: fwd
    buffer:
      type: hybridBuffer
      rootPath: %s
      maxBufSize: %dB
    output:
      type: fluentdForward
      serialization:
        environmentFields: [host, app]
        hiddenFields: [pid]
      messageMode: %s
      upstream:
        address: %s
        tls: false
        secret: ""
        maxDuration: %s
`, fields, aInputAddr, unescIn, strings.Join(s.Keys, ", "), s.Tag, metricKey, extra, aBufRoot, s.MaxBufBytes, s.Mode, aUpstreamAddr, maxDur) + s.secondOutputYAML() + s.datadogOutputYAML()
}

func (s *AScenario) datadogOutputYAML() string {
	if !s.Datadog {
		return ""
	}
	return fmt.Sprintf(`  - name: dd
    buffer:
      type: hybridBuffer
      rootPath: %s
      maxBufSize: %dB
    output:
      type: datadog
      serialization:
        hiddenFields: [pid, extra1]
      upstream:
        address: http://localhost:1/api/v2/logs
        httpTimeout: 30s
`, aBufRootDD, s.MaxBufBytes)
}

func (s *AScenario) secondOutputYAML() string {
	if !s.Out2 {
		return ""
	}
	mode2 := "Forward"
	if s.Mode == "Forward" {
		mode2 = "PackedForward"
	}
	return fmt.Sprintf(`  - name: fwd2
    buffer:
      type: hybridBuffer
      rootPath: %s
      maxBufSize: %dB
    output:
      type: fluentdForward
      serialization:
        environmentFields: [host]
        hiddenFields: [extra1]
      messageMode: %s
      upstream:
        address: %s
        tls: false
        secret: ""
        maxDuration: 60s
`, aBufRoot2, s.MaxBufBytes, mode2, aUpstreamAddr2)
}

// recordLine renders the bytes a client sends for one record (including the final newline)
func (s *AScenario) recordLine(client, seq int, rec ARec) string {
	if rec.Raw != "" {
		return string(rec.Raw)
	}
	kt := s.KeyTuples[rec.Key%len(s.KeyTuples)]
	sev := 6
	fmt.Sscanf(kt[1], "%d", &sev)
	pri := 8 + sev%8 // facility "user"
	msgid := "-"
	if rec.Drop {
		msgid = "dropme"
	}
	// several variants have the same length and differ only in the zone, so that zone strings of different records sit at the
	// same offset of reused backing buffers
	tsv := []string{
		"2024-03-05T10:20:30.123456+02:00", "2024-03-05T10:20:30Z", "2024-12-31T23:59:59.999999999-11:30", "2023-01-01T00:00:00.5+00:00",
		"2024-03-05T10:20:30.123456-07:00", "2024-03-05T10:20:30.123456+05:30", "2024-03-05T10:20:30.123456+00:00", "2024-03-05T10:20:30.123456-03:00",
	}
	ts := tsv[rec.TS%len(tsv)]
	host := []string{"h1", "h2"}[(client+seq)%2]
	if rec.MK > 0 && !rec.Drop {
		host, msgid = mkHostSource(rec.MK)
	}
	msg := fmt.Sprintf("c%d.n%d#", client, seq) // self-delimiting: a truncated stamp never equals another stamp
	if rec.Head {
		msg = fmt.Sprintf("[Cls%d ] - ", seq%7) + msg
	}
	if rec.Fill > 0 {
		msg += " " + strings.Repeat(string(rune('a'+seq%26)), rec.Fill)
	}
	if rec.Esc {
		msg += fmt.Sprintf(` e\n%d\tq\\z`, seq)
	}
	line := fmt.Sprintf("<%d>1 %s %s %s %s %s - %s\n", pri, ts, host, kt[0], kt[2], msgid, msg)
	for i := 0; i < rec.Multi; i++ {
		line += fmt.Sprintf("\tcontinuation %d of c%d.n%d\n", i, client, seq)
	}
	return line
}

// mkPairs: (host, msgid) pairs that coincide under one of the plausible ways of merging two values into one lookup key: plain
// concatenation, decimal length prefixes without a terminator ("11"+"11-worker-x"+"1"+"s" == "1"+"1"+"11"+"-worker-x1s"), a joining
// character that the values may contain themselves
var mkPairs = [][2]string{{"h", "1s"}, {"h1", "s"}, {"h2", "s"}, {"h", "2s"}, {"11-worker-x", "s"}, {"1", "-worker-x1s"},
	{"h,1", "s"}, {"h", "1,s"}, {"h/1", "s"}, {"h", "1/s"}, {"h|1", "s"}, {"h", "1|s"}}

// (no pair with ':' - the simulated configuration cuts the msgid at a colon: extractTail of source)

// mkHostSource gives (host, msgid) pairs whose plain concatenations coincide: h+1s, h1+s, h1s+x ...
func mkHostSource(mk int) (string, string) {
	p := mkPairs[(mk-1)%len(mkPairs)]
	return p[0], p[1]
}

// aimAtDatadogSizeLimit adjusts the last record of burst bi of client 0 so that the burst, as one Datadog JSON array
// ('[' + records joined by ',' + ']'), is exactly the size limit plus delta bytes. The sizes are those the real serializer
// gives each record on a fresh pipeline.
func (s *AScenario) aimAtDatadogSizeLimit(bi, delta int) {
	ref, err := newAReference(s.configYAML(""))
	if err != nil {
		return
	}
	ref.rawOnly = true
	for i, p := range ref.conf.OutputBuffersPairs {
		if p.Name == "dd" {
			ref.outIdx = i
		}
	}
	seq := 0
	for b := 0; b < bi; b++ {
		seq += len(s.Clients[0].Bursts[b].Recs)
	}
	recs := s.Clients[0].Bursts[bi].Recs
	size := func(i int) int {
		ref.tag = s.expandTag(s.tupleOfKey(recs[i].Key))
		return len(ref.eval(strings.TrimSuffix(s.recordLine(0, seq+1+i, recs[i]), "\n")).raw)
	}
	total := 2 + len(recs) - 1
	for i := range recs {
		total += size(i)
	}
	last := len(recs) - 1
	for try := 0; try < 3 && total != ddMaxBytes+delta; try++ {
		before := size(last)
		recs[last].Fill = max(0, recs[last].Fill+ddMaxBytes+delta-total)
		total += size(last) - before
	}
	if os.Getenv("VERIF_DEBUG_DD") != "" {
		fmt.Fprintf(os.Stderr, "DD aim: %d records, array of %d bytes (limit %+d), last fill %d\n", len(recs), total, total-ddMaxBytes, recs[last].Fill)
	}
}

func genFaultyUp(r *simrt.Rand, s *AScenario) AUp {
	switch r.Intn(10) {
	case 0:
		return AUp{Kind: "refuse"}
	case 1:
		return AUp{Kind: "timeout"}
	case 2:
		return AUp{Kind: "reset_after", N: r.Intn(4)}
	case 3:
		return AUp{Kind: "reset_mid", N: r.Intn(3), DelayMs: r.Intn(200)}
	case 4:
		return AUp{Kind: "never_ack", N: r.Intn(3)}
	case 5:
		return AUp{Kind: "ack_delay", DelayMs: []int{10, 500, s.AckTimeoutMs - 100, s.AckTimeoutMs + 500}[r.Intn(4)]}
	case 6:
		return AUp{Kind: "ack_unknown", N: 1 + r.Intn(2)}
	case 7:
		return AUp{Kind: "no_read"}
	case 8:
		return AUp{Kind: "close_after", N: r.Intn(4)}
	}
	return AUp{Kind: "healthy"}
}

func (w *worldA) Generate(r *simrt.Rand, profile, tier string) any {
	s := &AScenario{Profile: profile}
	nk := 1 + r.Intn(3)
	s.Keys = []string{"app", "level", "pid"}[:nk]
	s.Tag = []string{"sim.$app", "sim.$app.$level", "t-$app-$level-$pid"}[nk-1]
	apps := []string{"alpha", "beta", "gamma"}
	nt := 1 + r.Intn(5)
	for i := 0; i < nt; i++ {
		s.KeyTuples = append(s.KeyTuples, []string{apps[r.Intn(3)], fmt.Sprint(3 + r.Intn(4)), fmt.Sprint(100 + r.Intn(3))})
	}
	s.Mode = []string{"Forward", "PackedForward", "CompressedPackedForward"}[r.Intn(3)]
	s.MaxDurMs = []int{20000, 60000, 1800000, -1000}[r.Pick(3, 3, 3, 1)]
	s.FlushMs = 500
	s.IBufLogs = []int{2, 4, 8, 500}[r.Intn(4)]
	s.MemCap = r.Range(2, 8)
	s.ChunkMaxBytes = []int{300, 1000, 4000, 65536}[r.Intn(4)]
	s.ChunkMaxRecs = []int{0, 0, 1, 3, 10}[r.Intn(5)]
	s.AckTimeoutMs = []int{3000, 20000, 120000}[r.Intn(3)]
	s.ConnTimeoutMs = []int{1000, 60000}[r.Intn(2)]
	s.RetryMs = []int{100, 2000, 10000}[r.Intn(3)]
	s.PingMs = []int{1000, 20000}[r.Intn(2)]
	s.ICTMs = []int{5000, 60000}[r.Intn(2)]
	s.MsgMax = 1024
	s.PoolMin = []int{32, 1024}[r.Intn(2)]
	s.UpRx = []int{256, 4096, 65536}[r.Intn(3)]
	s.QueueCap = 500000
	s.MaxBufBytes = 1 << 30
	nc := 1 + r.Intn(4)
	total := 0
	end := 0
	for c := 0; c < nc; c++ {
		cl := AClient{StartMs: []int{0, 0, 10, 700, 3000}[r.Intn(5)]}
		t := cl.StartMs
		for b, nb := 0, 1+r.Intn(6); b < nb; b++ {
			bu := ABurst{PauseMs: []int{0, 0, 1, 100, 499, 501, 1200, 5000}[r.Intn(8)]}
			for i, n := 0, 1+r.Intn(12); i < n && total < 400; i++ {
				rec := ARec{Key: r.Intn(len(s.KeyTuples)), TS: r.Intn(4)}
				if r.Bool(10) {
					rec.Drop = true
				}
				rec.Head = r.Bool(10)
				switch r.Intn(4) {
				case 0:
					rec.Fill = r.Intn(40)
				case 1:
					rec.Fill = r.Intn(400)
				}
				bu.Recs = append(bu.Recs, rec)
				total++
			}
			if r.Bool(20) {
				bu.CutAt = 1 + r.Intn(60)
			}
			t += bu.PauseMs
			cl.Bursts = append(cl.Bursts, bu)
		}
		cl.TailMs = []int{0, 0, 600, 1500}[r.Intn(4)]
		end = max(end, t+cl.TailMs)
		s.Clients = append(s.Clients, cl)
	}
	faulty := profile != "nofault"
	if faulty {
		for i, n := 0, r.Intn(6); i < n; i++ {
			s.Upstream = append(s.Upstream, genFaultyUp(r, s))
		}
		s.HealAtMs = r.Intn(end + 30000)
		for i, n := 0, r.Pick(3, 3, 2, 1); i < n; i++ {
			s.Events = append(s.Events, AEvent{AtMs: r.Intn(end + 5000), Kind: "restart"})
		}
		if r.Bool(20) {
			s.Events = append(s.Events, AEvent{AtMs: r.Intn(end + 5000), Kind: "sigusr1"})
		}
	}
	s.FinalStop = r.Bool(30)
	w.tweak(r, s, end)
	sortEvents(s.Events)
	// part of the runs interleave at every larger function entry too (about four times the steps): that is where
	// unsynchronised sharing between goroutines shows, e.g. two connections writing one scratch buffer
	switch profile {
	case "c11big", "c11dd", "c07big":
	case "c06", "c12", "c05":
		s.Fine = r.Bool(25)
		// slow tasks: nothing says when a goroutine started by a go statement first runs. Only where the oracle is free of
		// time bounds (order of deliveries)
		if profile == "c05" && r.Bool(35) {
			s.SpawnStall = []int{5, 15, 40}[r.Intn(3)]
		}
		if profile == "c05" && r.Bool(20) {
			s.YieldStall = []int{3, 10}[r.Intn(2)]
		}
	default:
		s.Fine = r.Bool(8)
		if os.Getenv("VERIF_FINE_ALL") != "" {
			s.Fine = true
		}
	}
	return s
}

var c06Alphabet = []string{"", "a", "b", "ab", "bc", "c", ",", "a,b", "b,c", "/", "a/b", "a\x00b", ".", "..", "a\t", "\ta", "\t", "a\x0b", "\ra", "\xff", "\xfe", "\uFFFD", "a\xc0b", "a\xc1b", "xxxxxxxxxxxxxxxxxxxxxxxxxxxxxxxxxxxxxxxxxxxxxxxxxxxxxxxxxxxxxxxxxxxxxxxx"}

// hostile material for C07, produced by grammar mutation of a valid record
func hostileLine(r *simrt.Rand, n int) string {
	valid := fmt.Sprintf("<13>1 2024-03-05T10:20:30Z host app 42 - - hostile payload number %d with padding", n)
	switch r.Intn(30) {
	case 27, 28: // the PRI read as a signed or oversize integer (strconv accepts a sign): reaches the parser when it opens a connection or follows a flush
		pri := []string{"-1", "-3", "-7", "-8", "-9", "-0", "+5", "-191", "0013", "192", "99999999999999999999", "-99999999999999999999", "1e1", "0x1"}[r.Intn(14)]
		return strings.Replace(valid, "<13>1", "<"+pri+">1", 1) + "\n"
	case 24: // bracketed label for the extractHead step made of blanks / control bytes only, or empty
		return strings.Replace(valid, "hostile payload", []string{"[   ] - ", "[\t] - ", "[] - ", "[ \x01 ] - ", "[" + strings.Repeat(" ", 98) + "] - "}[r.Intn(5)]+"payload", 1) + "\n"
	case 25: // label for the extractTail step on the msgid: blank / control bytes only, empty, oversize
		return strings.Replace(valid, " - - ", " "+[]string{"src:\t", "src:", ":", "s:\x01\x02", "s:" + strings.Repeat("f", 60)}[r.Intn(5)]+" - ", 1) + "\n"
	case 26: // unterminated or nested brackets
		return strings.Replace(valid, "hostile payload", []string{"[unterminated - ", "[[a]] - ", "[a] -", "] - [", "[a\\] - "}[r.Intn(5)]+"payload", 1) + "\n"
	case 0:
		return "<\n"
	case 1:
		return "<>\n"
	case 2:
		return strings.Replace(valid, "<13>1", "<1a>1", 1) + "\n"
	case 3:
		return strings.Replace(valid, "<13>1", "<999>1", 1) + "\n"
	case 4:
		return strings.Replace(valid, "<13>1", "<13>2", 1) + "\n"
	case 5: // NIL timestamp
		return strings.Replace(valid, "2024-03-05T10:20:30Z", "-", 1) + "\n"
	case 6: // timestamp truncated at any length
		full := "2024-03-05T10:20:30.123456+02:00"
		return strings.Replace(valid, "2024-03-05T10:20:30Z", full[:1+r.Intn(len(full)-1)], 1) + "\n"
	case 7: // missing tokens
		return "<13>1 2024-03-05T10:20:30Z hostonlyxxxxxxxxxxxxxxxxxxxxxxxxxxxxxxxx\n"
	case 8: // first token shorter than the parser expects, reaches it as an untested leading block
		return "< aaaaaaaaaaaaaaaaaaaaaaaaaaaaaaaaaaaaaaaaaaaaaaaaaa\n"
	case 9: // oversize header field
		return strings.Replace(valid, " host ", " "+strings.Repeat("h", 1500+r.Intn(3000))+" ", 1) + "\n"
	case 10: // oversize message
		return valid + strings.Repeat("m", 900+r.Intn(3000)) + "\n"
	case 11: // line longer than the line buffer, no newline for a long time
		return strings.Repeat("z", 5000+r.Intn(3000)) + "\n"
	case 12: // invalid UTF-8 in header fields (several become Prometheus label values)
		return strings.Replace(valid, " host app ", " h\xff\xfe ap\xc3\x28p ", 1) + "\n"
	case 13: // NUL bytes
		return strings.Replace(valid, " host app ", " h\x00st a\x00p ", 1) + "\n"
	case 14:
		return "\n\n\n"
	case 15: // binary
		b := make([]byte, 40+r.Intn(200))
		for i := range b {
			b[i] = byte(r.Intn(256))
		}
		return string(b) + "\n"
	case 16: // a record cut off without newline: whatever follows is glued to it
		return valid[:20+r.Intn(40)]
	case 17: // huge timestamp-looking token
		return strings.Replace(valid, "2024-03-05T10:20:30Z", "2024-03-05T10:20:30."+strings.Repeat("9", 40)+"Z", 1) + "\n"
	case 18: // timezone garbage
		return strings.Replace(valid, "2024-03-05T10:20:30Z", "2024-03-05T10:20:30+9x:zz", 1) + "\n"
	case 19: // invalid UTF-8 at the cut point of an oversize message
		return valid + strings.Repeat("\xe2\x82", 700) + "\n"
	case 20: // empty tokens
		return "<13>1        msg with only spaces before it, long enough to pass the length test\n"
	case 21: // escape sequences
		return valid + " \\n\\t\\b\\\\ \\x \\" + "\n"
	case 22: // marker field with odd bytes
		return strings.Replace(valid, " - - ", " dropme\xff - ", 1) + "\n"
	}
	return strings.Replace(valid, "<13>1", "<191>1", 1) + "\n"
}

// burstTimes returns the scheduled times (ms) at which clients write their bursts
func burstTimes(s *AScenario) []int {
	var out []int
	for _, cl := range s.Clients {
		t := cl.StartMs
		for _, bu := range cl.Bursts {
			t += bu.PauseMs
			out = append(out, t)
		}
	}
	return out
}

// tweak adapts the generic scenario to the property profile
func (w *worldA) tweak(r *simrt.Rand, s *AScenario, end int) {
	restarts := func(n int) {
		for i := 0; i < n; i++ {
			s.Events = append(s.Events, AEvent{AtMs: r.Intn(end + 5000), Kind: "restart"})
		}
	}
	switch s.Profile {
	case "c01two":
		// C01 "for each configured output": a second output with its own queue root and its own faulty upstream
		s.Out2 = true
	case "limits":
		s.QueueCap = r.Range(2, 12)
		s.MaxBufBytes = r.Range(300, 20000)
		s.MemCap = r.Range(2, 4)
	case "c05":
		s.IBufLogs = []int{2, 3, 4}[r.Intn(3)]
		s.ChunkMaxRecs = []int{1, 1, 2, 3}[r.Intn(4)]
		s.MemCap = r.Range(2, 6)
		if len(s.KeyTuples) > 3 {
			s.KeyTuples = s.KeyTuples[:3]
		}
		// stop requests that land while freshly cut chunks sit in the memory window: right at / after a burst
		if bt := burstTimes(s); len(bt) > 0 {
			for i, n := 0, 1+r.Intn(2); i < n; i++ {
				s.Events = append(s.Events, AEvent{AtMs: bt[r.Intn(len(bt))] + []int{0, 0, 1, 5, 600}[r.Intn(5)], Kind: "restart"})
			}
			if r.Bool(20) {
				// a pipeline's worker does not run for longer than the hand-over timeout of the per-key buffers (blocked in a system call,
				// a paused cgroup) while its connections keep delivering: the documented outcome is a logged loss of the batch that
				// could not be handed over - never a change of order among the records that do arrive
				s.ICTMs = 5000
				s.IBufLogs = 2
				s.Events = append(s.Events, AEvent{AtMs: bt[r.Intn(len(bt))] + []int{0, 1, 400}[r.Intn(3)], Kind: "stall", N: 5200 + r.Intn(6000), Site: "pipelineworkerbase.go"})
			}
			if r.Bool(25) {
				// the wall clock steps back between two bursts: chunk ids are made from it, and resending and recovery order by id
				at := bt[r.Intn(len(bt))] + 1
				s.Events = append(s.Events, AEvent{AtMs: at, Kind: "clock_back", N: []int{1, 50, 2000, 60000}[r.Intn(4)]})
				// Ids of one generator stay ordered over a clock step (repair 27); a new generator after a restart starts from the
				// stepped clock, and a SECOND restart would then sort old and new files by id. Persisting the last id over restarts is
				// not something the code attempts (DESIGN §11.2b): at most one restart follows the step.
				var kept []AEvent
				after := 0
				for _, ev := range s.Events {
					if ev.Kind == "restart" && ev.AtMs >= at {
						after++
						if after > 1 {
							continue
						}
					}
					kept = append(kept, ev)
				}
				s.Events = kept
			}
		}
	case "c06":
		s.Umask = []int{0, 0, 0o027, 0o077}[r.Intn(4)] // a restrictive umask is an ordinary deployment setting (systemd UMask=)
		nk := 1 + r.Intn(3)
		s.Keys = [][]string{{"app"}, {"app", "pid"}, {"app", "level", "pid"}}[nk-1]
		// (single-variable templates too: the tag builder returns the key string itself for them, without copying)
		tagOpts := [][]string{{"t.$app", "x-${app[:2]}", "$app", "${app[:3]}"}, {"t.$app.$pid", "x-${app[:2]}-$pid", "$app$pid"}, {"t.$app.$level.$pid", "$pid-${app[-1:]}-$level"}}[nk-1]
		s.Tag = tagOpts[r.Intn(len(tagOpts))]
		s.KeyTuples = nil
		// colliding concatenations and separators first, then random picks from the alphabet
		seeds := [][]string{{"ab", "c"}, {"a", "bc"}, {"a,b", "c"}, {"a", "b,c"}, {"", "a"}, {"a", ""}, {",", ""}, {"", ","}, {"a/b", "c"}, {"a", "b"}, {"a\t", "a"}, {"a", "\ta"}, {"\t", "a"},
			// bytes that are not UTF-8: whatever cleans them up for a label, a log line or a directory name must not merge the key sets
			{"\xff", "c"}, {"\xfe", "c"}, {"\uFFFD", "c"}, {"a\xc0b", "\xff"}, {"a\xc1b", "\xff"}}
		// whole couples first: two tuples that coincide under some way of merging, joining, cleaning or sanitising key values -
		// one member alone shows nothing
		couples := [][2][2]string{{{"ab", "c"}, {"a", "bc"}}, {{"a,b", "c"}, {"a", "b,c"}}, {{"", "a"}, {"a", ""}}, {{",", ""}, {"", ","}},
			{{"a/b", "c"}, {"a\x00b", "c"}}, {{"a/b", "c"}, {"a_b", "c"}}, {{"a\t", "a"}, {"a", "\ta"}}, {{"\xff", "c"}, {"\xfe", "c"}},
			{{"\xff", "c"}, {"\uFFFD", "c"}}, {{"a\xc0b", "\xff"}, {"a\xc1b", "\xff"}}, {{"a.", "b"}, {"a", ".b"}}}
		for i, n := 0, r.Intn(3); i < n; i++ {
			c := couples[r.Intn(len(couples))]
			lvl := fmt.Sprint(3 + r.Intn(3))
			s.KeyTuples = append(s.KeyTuples, []string{c[0][0], lvl, c[0][1]}, []string{c[1][0], lvl, c[1][1]})
		}
		for i, n := 0, 2+r.Intn(5); i < n; i++ {
			var app, pid string
			if r.Bool(60) {
				p := seeds[r.Intn(len(seeds))]
				app, pid = p[0], p[1]
			} else {
				app, pid = c06Alphabet[r.Intn(len(c06Alphabet))], c06Alphabet[r.Intn(len(c06Alphabet))]
			}
			s.KeyTuples = append(s.KeyTuples, []string{app, fmt.Sprint(3 + r.Intn(3)), pid})
		}
		s.MemCap = 2
		s.Upstream = nil
		for i, n := 0, r.Intn(4); i < n; i++ {
			s.Upstream = append(s.Upstream, []AUp{{Kind: "never_ack"}, {Kind: "healthy"}, {Kind: "refuse"}}[r.Intn(3)])
		}
		s.Events = nil
		restarts(r.Pick(1, 3, 2))
		s.FinalStop = r.Bool(20)
		if r.Bool(20) {
			// the disk is full while the second generation starts: the rewrite of the .id files fails. The upstream stays down
			// through that generation, so the queues still matter at the third start.
			s.IDFault = 2
			s.Events = []AEvent{{AtMs: end + 500, Kind: "restart"}, {AtMs: end + 2500, Kind: "restart"}}
			s.Upstream = nil
			for i := 0; i < 40; i++ {
				s.Upstream = append(s.Upstream, AUp{Kind: "refuse"})
			}
			s.HealAtMs = end + 4000
			s.FinalStop = false
		}
	case "c07", "c07big":
		n := 0
		for ci := range s.Clients {
			for bi := range s.Clients[ci].Bursts {
				bu := &s.Clients[ci].Bursts[bi]
				var recs []ARec
				for _, rec := range bu.Recs {
					if r.Bool(45) {
						n++
						recs = append(recs, ARec{Raw: rawStr(hostileLine(r, n))})
					}
					recs = append(recs, rec)
				}
				bu.Recs = recs
			}
		}
		for ci := range s.Clients {
			// "abrupt disconnects": a reset instead of an orderly close, right after the last bytes or a little later
			s.Clients[ci].Abortive = r.Bool(30)
		}
		// a last, clean connection after the hostile phase
		s.Clients = append(s.Clients, AClient{StartMs: end + 3000, Bursts: []ABurst{{Recs: []ARec{{Key: 0}, {Key: 0, TS: 1}}}}})
		s.Upstream = nil
		s.Events = nil
		s.FinalStop = false
		s.HealAtMs = 0
		if s.Profile == "c07big" {
			s.MsgMax = 1024 * 1024
		}
		if r.Bool(35) {
			// "keeps accepting connections" under a failing system call: too many open files for one accept
			for i, n := 0, 1+r.Intn(2); i < n; i++ {
				s.AcceptErrs = append(s.AcceptErrs, r.Intn(len(s.Clients)+1))
			}
		}
	case "c11dd":
		// Datadog format next to a Forward output; a third of the runs aim a burst at the record limit, a third at the size limit
		s.Datadog = true
		s.ChunkMaxBytes, s.ChunkMaxRecs = 7*1024*1024, 0
		s.MsgMax = 1024 * 1024
		s.Upstream, s.HealAtMs = nil, 0
		s.Events = nil
		if r.Bool(30) {
			restarts(1)
		}
		s.IBufLogs = 2000
		s.IBufBytes = 64 << 20 // a whole aimed burst reaches the pipeline in one batch, between two flush ticks
		switch mode := r.Intn(3); mode {
		case 1, 2:
			s.KeyTuples = s.KeyTuples[:1]
			cl := AClient{}
			small := func(n int) ABurst {
				bu := ABurst{PauseMs: 4000}
				for i := 0; i < n; i++ {
					bu.Recs = append(bu.Recs, ARec{TS: r.Intn(4), Fill: r.Intn(30)})
				}
				return bu
			}
			if r.Bool(50) {
				cl.Bursts = append(cl.Bursts, small(1+r.Intn(3)))
			}
			aim := ABurst{PauseMs: 4000} // long after the burst before it: the aimed burst starts a chunk of its own
			if mode == 1 {
				for i, n := 0, ddMaxRecords+r.Range(-1, 3); i < n; i++ {
					aim.Recs = append(aim.Recs, ARec{TS: i % 4, Fill: r.Intn(4)})
				}
			} else {
				for i, n := 0, r.Range(9, 13); i < n; i++ {
					aim.Recs = append(aim.Recs, ARec{TS: i % 4, Fill: ddMaxBytes/n - 5000 + r.Intn(3000)})
				}
			}
			cl.Bursts = append(cl.Bursts, aim)
			cl.Bursts = append(cl.Bursts, small(1+r.Intn(3)))
			s.Clients = []AClient{cl}
			if mode == 2 {
				s.aimAtDatadogSizeLimit(len(cl.Bursts)-2, r.Range(-2, 3))
			}
		default:
			for ci := range s.Clients {
				for bi := range s.Clients[ci].Bursts {
					s.Clients[ci].Bursts[bi].CutAt = 0
				}
			}
		}
	case "c11big":
		// the shipped limits: 7 MiB chunks, 1 MiB messages; a few records of hundreds of KiB so that single chunks pass the
		// 1 MiB initial capacity of the chunk and message buffers (state that only a large chunk creates)
		s.ChunkMaxBytes, s.ChunkMaxRecs = 7*1024*1024, 0
		s.MsgMax = 1024 * 1024
		s.MemCap = r.Range(2, 5)
		s.Upstream, s.Events, s.HealAtMs = nil, nil, 0
		if len(s.Clients) > 2 {
			s.Clients = s.Clients[:2]
		}
		big := 0
		for ci := range s.Clients {
			if len(s.Clients[ci].Bursts) > 4 {
				s.Clients[ci].Bursts = s.Clients[ci].Bursts[:4]
			}
			for bi := range s.Clients[ci].Bursts {
				bu := &s.Clients[ci].Bursts[bi]
				bu.CutAt = 0
				if len(bu.Recs) > 6 {
					bu.Recs = bu.Recs[:6]
				}
				for ri := range bu.Recs {
					rec := &bu.Recs[ri]
					rec.Key = 0 // one pipeline, so that the bytes add up in one chunk
					rec.Multi, rec.Drop = 0, false
					if big < 12 && r.Bool(60) {
						rec.Fill = 150_000 + r.Intn(500_000)
						big++
					}
				}
			}
		}
	case "c11":
		s.ChunkMaxBytes = []int{200, 300, 600, 2000, 65536}[r.Intn(5)]
		s.ChunkMaxRecs = []int{0, 1, 2, 3, 10}[r.Intn(5)]
		s.MemCap = r.Range(2, 5)
		if r.Bool(15) {
			// a reload replaces every pipeline - and with it every chunk maker and id generator - at one instant, while chunks of
			// the old ones are still queued: ids have to stay unique between the old and the new generator of a pipeline
			s.Reloader = true
			at := r.Intn(end + 1)
			if bt := burstTimes(s); len(bt) > 0 && r.Bool(70) {
				at = bt[r.Intn(len(bt))] // in the middle of a burst: its records reach old and new pipelines within the same millisecond
			}
			s.Events = append(s.Events, AEvent{AtMs: at, Kind: "sighup_valid"})
		}
		for ci := range s.Clients {
			for bi := range s.Clients[ci].Bursts {
				for ri := range s.Clients[ci].Bursts[bi].Recs {
					rec := &s.Clients[ci].Bursts[bi].Recs[ri]
					if r.Bool(50) {
						// serialized sizes around the chunk limit
						rec.Fill = max(0, s.ChunkMaxBytes/(1+r.Intn(3))-130+r.Intn(60))
						if rec.Fill > 900 {
							rec.Fill = r.Intn(900)
						}
					}
				}
			}
		}
	case "c12":
		// thresholds inside the range of record lengths mix pooled and unpooled records on the same record structs
		s.PoolMin = []int{32, 32, 90, 150, 400}[r.Intn(5)]
		s.PoolMode = []int{1, 1, 0}[r.Intn(3)]
		s.Out2 = r.Bool(50)
		s.Poison = r.Bool(50)
		s.UnescIn = r.Bool(50)
		if r.Bool(25) {
			// record objects and their allocator outlive a reload, the schema may grow with it: a successful reload that appends a
			// field which only some records set
			s.Reloader = true
			s.Events = append(s.Events, AEvent{AtMs: r.Intn(end/2 + 1), Kind: "sighup_valid"})
		}
		for ci := range s.Clients {
			for bi := range s.Clients[ci].Bursts {
				bu := &s.Clients[ci].Bursts[bi]
				bu.CutAt = 0
				for ri := range bu.Recs {
					rec := &bu.Recs[ri]
					rec.TS = r.Intn(8)
					rec.Esc = r.Bool(35)
					switch r.Intn(5) {
					case 0:
						rec.Multi = 1 + r.Intn(2)
					case 1:
						rec.Fill = 100 + r.Intn(700)
					case 2:
						rec.Fill = r.Intn(30)
					}
				}
			}
		}
	case "c04a":
		// C04 end to end: the real serializer, chunk maker, buffer, client and upstream protocol around a disk that fails and a
		// process that is killed while chunk files are written, read back and removed
		s.MemCap = r.Range(1, 3)
		s.ChunkMaxBytes = []int{300, 1000, 4000}[r.Intn(3)]
		s.FinalStop = false
		s.MaxDurMs = []int{20000, 60000}[r.Intn(2)]
		s.AckTimeoutMs = []int{3000, 20000}[r.Intn(2)]
		if len(s.Upstream) < 2 {
			// an upstream that does not take the chunks makes them spill
			s.Upstream = append(s.Upstream, AUp{Kind: "never_ack"}, AUp{Kind: "refuse"})
		}
		s.HealAtMs = end + r.Intn(20000)
		s.PlantDamaged = r.Bool(25)
		kinds := []string{"write", "write", "write", "create", "close", "rename", "open", "read", "unlink"}
		for i, n := 0, 1+r.Intn(3); i < n; i++ {
			f := ADiskFault{Gen: []int{1, 1, 1, 2, 2, 3}[r.Intn(6)], OpKind: kinds[r.Intn(len(kinds))], Nth: r.Intn(6)}
			if r.Bool(35) {
				f.Nth = r.Intn(25)
			}
			if f.OpKind == "write" {
				f.Action = []string{"short", "err", "kill", "shortkill", "shorterr", "shorterr"}[r.Intn(6)]
				f.Bytes = []int{0, 1, 7, 60, 150, 250, 1000}[r.Intn(7)]
				f.Sticky = f.Action == "shorterr" && r.Bool(50)
			} else {
				f.Action = []string{"err", "kill"}[r.Intn(2)]
			}
			f.Errno = []string{"ENOSPC", "EIO", "EDQUOT"}[r.Intn(3)]
			s.DiskFaults = append(s.DiskFaults, f)
		}
	case "c17a":
		s.Reloader = true
		s.Events = nil
		for i, n := 0, 1+r.Intn(3); i < n; i++ {
			s.Events = append(s.Events, AEvent{AtMs: r.Intn(end + 3000), Kind: []string{"sighup_valid", "sighup_valid", "sighup_invalid", "sighup_incompatible", "sighup_valid", "sighup_addoutput", "sighup_badenvfield", "sighup_noorchestration", "sighup_badpattern"}[r.Intn(9)]})
		}
		if r.Bool(25) {
			restarts(1)
		}
		s.Out2 = r.Bool(35) // queued chunks of every output have to be taken over
		if r.Bool(20) {
			// "at any moment" includes the moment of a stop: a SIGHUP right before the stop request of a graceful restart
			at := r.Intn(end + 3000)
			s.Events = append(s.Events, AEvent{AtMs: at, Kind: "sighup_valid"}, AEvent{AtMs: at, Kind: "restart"})
		}
	case "c18":
		s.Events = nil
		restarts(1 + r.Intn(3))
		s.FinalStop = true
		s.HealAtMs = end + 60000
		if len(s.Upstream) < 3 {
			for i := 0; i < 4; i++ {
				s.Upstream = append(s.Upstream, genFaultyUp(r, s))
			}
		}
		s.MemCap = r.Range(2, 8)
		for ci := range s.Clients {
			s.Clients[ci].HoldOpen = r.Bool(50)
		}
		s.Out2 = r.Bool(30) // two buffers to shut down, one after the other
		if r.Bool(30) {
			s.QueueCap = r.Range(2, 8) // "every amount of pending data": a queue that is full at the moment of the stop
		}
	case "c19":
		// the equations are asserted on runs without reachable limits
		if r.Bool(50) {
			s.MetricKeys = []string{"host", "source"}
			for ci := range s.Clients {
				for bi := range s.Clients[ci].Bursts {
					for ri := range s.Clients[ci].Bursts[bi].Recs {
						if r.Bool(40) {
							s.Clients[ci].Bursts[bi].Recs[ri].MK = 1 + 2*r.Intn(len(mkPairs)/2) + r.Intn(2) // mostly both members of a colliding pair in one run
						}
					}
				}
			}
		}
	}
}

func sortEvents(ev []AEvent) {
	for i := 1; i < len(ev); i++ {
		for j := i; j > 0 && ev[j].AtMs < ev[j-1].AtMs; j-- {
			ev[j], ev[j-1] = ev[j-1], ev[j]
		}
	}
}

func (w *worldA) Shrink(sc any) []any {
	s := sc.(*AScenario)
	var out []any
	clone := func() *AScenario {
		b, _ := json.Marshal(s)
		var c AScenario
		_ = json.Unmarshal(b, &c)
		return &c
	}
	if s.Fine {
		c := clone()
		c.Fine = false
		out = append(out, c)
	}
	if s.SpawnStall != 0 {
		c := clone()
		c.SpawnStall = 0
		out = append(out, c)
	}
	if s.YieldStall != 0 {
		c := clone()
		c.YieldStall = 0
		out = append(out, c)
	}
	for i := range s.Events {
		c := clone()
		c.Events = append(c.Events[:i], c.Events[i+1:]...)
		out = append(out, c)
	}
	if s.PlantDamaged {
		c := clone()
		c.PlantDamaged = false
		out = append(out, c)
	}
	if len(s.DiskFaults) > 1 {
		// (the last one stays: without any the profile's kill-aware driver would not be in use)
		for i := range s.DiskFaults {
			c := clone()
			c.DiskFaults = append(c.DiskFaults[:i], c.DiskFaults[i+1:]...)
			out = append(out, c)
		}
	}
	for i := range s.Upstream {
		c := clone()
		c.Upstream = append(c.Upstream[:i], c.Upstream[i+1:]...)
		out = append(out, c)
	}
	if len(s.Clients) > 1 {
		for i := range s.Clients {
			c := clone()
			c.Clients = append(c.Clients[:i], c.Clients[i+1:]...)
			out = append(out, c)
		}
	}
	for ci, cl := range s.Clients {
		if len(cl.Bursts) > 1 {
			for bi := range cl.Bursts {
				c := clone()
				c.Clients[ci].Bursts = append(c.Clients[ci].Bursts[:bi], c.Clients[ci].Bursts[bi+1:]...)
				out = append(out, c)
			}
		}
		for bi, bu := range cl.Bursts {
			if len(bu.Recs) > 1 {
				c := clone()
				c.Clients[ci].Bursts[bi].Recs = bu.Recs[:len(bu.Recs)/2]
				out = append(out, c)
				c = clone()
				c.Clients[ci].Bursts[bi].Recs = bu.Recs[len(bu.Recs)/2:]
				out = append(out, c)
			}
			if bu.PauseMs != 0 {
				c := clone()
				c.Clients[ci].Bursts[bi].PauseMs = 0
				out = append(out, c)
			}
			if bu.CutAt != 0 {
				c := clone()
				c.Clients[ci].Bursts[bi].CutAt = 0
				out = append(out, c)
			}
			for ri, rec := range bu.Recs {
				if rec.Fill > 0 || rec.Multi > 0 || rec.Drop || rec.Esc || rec.Head {
					c := clone()
					c.Clients[ci].Bursts[bi].Recs[ri].Fill, c.Clients[ci].Bursts[bi].Recs[ri].Multi, c.Clients[ci].Bursts[bi].Recs[ri].Drop = 0, 0, false
					c.Clients[ci].Bursts[bi].Recs[ri].Esc = false
					c.Clients[ci].Bursts[bi].Recs[ri].Head = false
					out = append(out, c)
				}
			}
		}
		if cl.StartMs != 0 || cl.TailMs != 0 {
			c := clone()
			c.Clients[ci].StartMs, c.Clients[ci].TailMs = 0, 0
			out = append(out, c)
		}
	}
	for i, u := range s.Upstream {
		if u.Kind != "healthy" {
			c := clone()
			c.Upstream[i] = AUp{Kind: "healthy"}
			out = append(out, c)
		}
	}
	if len(s.KeyTuples) > 1 {
		c := clone()
		c.KeyTuples = c.KeyTuples[:1]
		out = append(out, c)
	}
	if s.HealAtMs > 0 {
		c := clone()
		c.HealAtMs = s.HealAtMs / 2
		out = append(out, c)
	}
	return out
}

// aAgent is one running generation of the agent
type aAgent struct {
	gen      int
	loader   *run.Loader
	reloader *run.Reloader
	orch     base.Orchestrator
	shutIn   func()
	addr     string
	startErr string
}

type aStop struct {
	Gen      int
	At       time.Duration
	Took     time.Duration
	Metrics  map[string]float64
	Files    map[string][]byte
	Files2   map[string][]byte // queue files of the second output
	FilesDD  map[string][]byte // queue files of the Datadog output
	BugLines int
}

type aRun struct {
	s                    *AScenario
	out                  *Outcome
	ev                   chan struct{}
	logbuf               bytes.Buffer
	fs                   *simfs.FS
	net                  *simnet.World
	cfgPath              string
	agent                *aAgent
	gen                  int
	srv                  *aServer
	clients              []*aClientState
	stops                []aStop
	notes                []string
	stopping             bool
	srv2                 *aServer     // upstream of the second output, when the scenario has one
	acceptSeen           int          // connections the agent's accept has returned so far
	acceptErrDone        map[int]bool // injected accept errors that have fired
	gaveUpConnecting     bool         // a client could not reach the listener for 100 simulated seconds while the agent was running
	stopHung             bool
	metricsErr           string        // first failure to gather the agent's metrics
	stopSince            time.Duration // simulated time+1 at which a stop in progress was requested; 0 when none
	finalDeadlineHit     bool
	lastFaultAt          time.Duration
	killedGen            int            // generation whose process was killed by a disk fault and has not been started again yet
	kills                int            // processes killed so far
	diskOpCount          map[string]int // "<generation>/<kind>" -> chunk-file operations seen
	stickyErr            map[int]syscall.Errno
	noMoreDiskFaults     bool // the fault-free tail has begun
	filesAtLastStart     map[string][]byte
	notDrained           bool
	reloads              []string // variants delivered
	reloadOK, reloadFail int
	healthyFrom          time.Duration
}

func (r *aRun) notify() {
	close(r.ev)
	r.ev = make(chan struct{})
}

func (r *aRun) note(prop, rule, sig, format string, args ...any) {
	r.notes = append(r.notes, prop+"\x00"+rule+"\x00"+sig+"\x00"+fmt.Sprintf(format, args...))
}

var aTmpDir string

func (w *worldA) Run(t *testing.T, profile string, sc any, cfg simrt.Config) *Outcome {
	s := sc.(*AScenario)
	out := &Outcome{}
	r := &aRun{s: s, out: out, acceptErrDone: map[int]bool{}}
	logger.SetOutput(&r.logbuf)
	logger.SetLogLevel(logger.InfoLevel)
	if os.Getenv("VERIF_DEBUG") != "" {
		logger.SetLogLevel(logger.DebugLevel)
	}
	if aTmpDir == "" {
		d, err := os.MkdirTemp("", "verif-cfg-")
		if err != nil {
			out.Harness = err.Error()
			return out
		}
		aTmpDir = d
	}
	r.cfgPath = filepath.Join(aTmpDir, "config.yml")
	cfg.MaxSimTime = 100 * time.Hour
	cfg.FineYields = s.Fine
	cfg.SpawnStall = s.SpawnStall
	cfg.YieldStall = s.YieldStall
	if cfg.MaxSteps == 0 && s.Fine {
		cfg.MaxSteps = 6_000_000
	}
	if cfg.MaxSteps == 0 {
		cfg.MaxSteps = 600_000 // an ordinary run takes 2-30 thousand steps; a run that reconnects forever is cut and counted, not judged
	}
	simsync.Mode = simsync.PoolMode(s.PoolMode)
	c18Outputs = 1
	if s.Out2 {
		c18Outputs = 2
	}
	// released backing buffers are poisoned: whatever still reads them after the release shows as a difference, not as luck
	simsync.OnPut = func(x any) {
		if b, ok := x.(*[]byte); ok && b != nil && s.Poison {
			bs := (*b)[:cap(*b)]
			for i := range bs {
				bs[i] = 0xEE
			}
		}
	}
	out.Res = simrt.Run(t, cfg, r.drive)
	out.Log = r.logbuf.String()
	if os.Getenv("VERIF_DUMP_LOG") != "" {
		fmt.Fprintln(os.Stderr, out.Log) // (development aid)
	}
	simsync.Mode = simsync.PoolLIFO
	simsync.OnPut = nil
	r.evaluate(out)
	return out
}

func (r *aRun) setKnobs() {
	s := r.s
	defs.InputLogMaxMessageBytes = s.MsgMax
	defs.InputLogMaxRecordBytes = s.MsgMax + 256
	defs.ListenerLineBufferSize = defs.InputLogMaxRecordBytes * 4
	defs.InputLogMinRecordBytesToPool = s.PoolMin
	defs.InputFlushInterval = ms(s.FlushMs)
	defs.IntermediateBufferMaxNumLogs = s.IBufLogs
	defs.IntermediateBufferMaxTotalBytes = 4 * 1024 * 1024
	if s.IBufBytes > 0 {
		defs.IntermediateBufferMaxTotalBytes = s.IBufBytes
	}
	defs.IntermediateBufferedChannelSize = 1
	defs.IntermediateChannelTimeout = ms(s.ICTMs)
	defs.IntermediateFlushInterval = time.Second
	defs.BufferMaxNumChunksInQueue = s.QueueCap
	defs.BufferMaxNumChunksInMemory = s.MemCap
	defs.ForwarderMaxPendingChunksForAck = 10
	defs.ForwarderConnectionTimeout = ms(s.ConnTimeoutMs)
	defs.ForwarderHandshakeTimeout = defs.ForwarderConnectionTimeout * 3 / 2
	defs.ForwarderBatchSendMinimumSpeed = 10 * 1024
	defs.ForwarderBatchSendTimeoutBase = defs.ForwarderConnectionTimeout * 3 / 2
	defs.ForwarderBatchAckTimeout = ms(s.AckTimeoutMs)
	defs.ForwarderAckerStopTimeout = defs.ForwarderBatchAckTimeout + defs.IntermediateChannelTimeout
	defs.ForwarderRetryInterval = ms(s.RetryMs)
	defs.ForwarderPingInterval = ms(s.PingMs)
	defs.BufferShutDownTimeout = defs.ForwarderBatchAckTimeout + defs.IntermediateChannelTimeout*2
	fluentdforward.VerifSetChunkLimits(s.ChunkMaxBytes, s.ChunkMaxRecs)
}

func (r *aRun) writeConfig(variant string) {
	if err := os.WriteFile(r.cfgPath, []byte(r.s.configYAML(variant)), 0o644); err != nil {
		r.out.Harness = "write config: " + err.Error()
	}
}

// startAgent starts a new generation on the generation's own goroutines
func (r *aRun) startAgent() bool {
	r.gen++
	gen := r.gen
	a := &aAgent{gen: gen}
	returned := r.runAgentCode(fmt.Sprintf("agent%d.main", gen), gen, -1, func() {
		defer func() {
			if p := recover(); p != nil {
				a.startErr = fmt.Sprint(p)
				panic(p)
			}
		}()
		var orch base.Orchestrator
		if r.s.Reloader {
			rl, err := run.NewReloaderFromConfigFile(r.cfgPath, "sim_")
			if err != nil {
				a.startErr = err.Error()
				return
			}
			a.reloader = rl
			a.loader = rl.Loader
			orch = rl.StartOrchestrator(logger.Root())
			addrs, shut := rl.LaunchInputs(orch)
			a.addr, a.shutIn = addrs[0], shut
		} else {
			ld, err := run.NewLoaderFromConfigFile(r.cfgPath, "sim_")
			if err != nil {
				a.startErr = err.Error()
				return
			}
			a.loader = ld
			if r.s.Datadog {
				ld.PipelineArgs.NewConsumerOverride = r.consumerOverride()
			}
			orch = ld.StartOrchestrator(logger.Root())
			addrs, shut := ld.LaunchInputs(orch)
			a.addr, a.shutIn = addrs[0], shut
		}
		a.orch = orch
	})
	if !returned {
		// the process was killed while it was starting
		r.agent = a
		return r.reviveIfKilled()
	}
	if a.startErr != "" {
		r.out.Harness = "agent start failed: " + a.startErr
		return false
	}
	r.agent = a
	if l := r.net.ListenerAt(aInputAddr); l != nil && len(r.s.AcceptErrs) > 0 {
		l.OnAccept = func() syscall.Errno {
			k := r.net.Stats.Accepted + r.net.Stats.AcceptErrors
			_ = k
			for i, at := range r.s.AcceptErrs {
				if at == r.acceptSeen && !r.acceptErrDone[i] {
					r.acceptErrDone[i] = true
					r.out.fault("accept_fails_with_emfile", 1)
					return syscall.EMFILE
				}
			}
			r.acceptSeen++
			return 0
		}
	}
	r.notify()
	return true
}

func (r *aRun) currentLoader() *run.Loader {
	if r.agent.reloader != nil {
		return r.agent.reloader.Loader
	}
	return r.agent.loader
}

func parseMetrics(dump string) map[string]float64 {
	m := map[string]float64{}
	for _, ln := range strings.Split(dump, "\n") {
		ln = strings.TrimSpace(ln)
		if ln == "" || ln[0] == '#' {
			continue
		}
		i := strings.LastIndexByte(ln, ' ')
		if i < 0 {
			continue
		}
		var v float64
		fmt.Sscanf(ln[i+1:], "%g", &v)
		m[ln[:i]] += v
	}
	return m
}

// runAgentCode runs f on a goroutine of the given agent generation and waits until it has returned, at most d of simulated time
// (d < 0: no limit). In scenarios with disk faults it also returns, with false, when the generation's process is killed.
func (r *aRun) runAgentCode(name string, gen int, d time.Duration, f func()) bool {
	if len(r.s.DiskFaults) == 0 {
		if d < 0 {
			return runAs(name, gen, f)
		}
		return runAsWithin(name, gen, d, f)
	}
	done := make(chan struct{})
	simrt.GoNamed(name, gen, func() {
		f()
		close(done)
	})
	var deadline time.Duration
	if d >= 0 {
		deadline = simrt.Now() + d
	}
	for {
		if r.killedGen == gen {
			return false
		}
		left := time.Hour
		if d >= 0 {
			if left = deadline - simrt.Now(); left <= 0 {
				return false
			}
		}
		tm := time.NewTimer(left)
		i := simrt.Select("runAgentCode "+name, false, simrt.RecvCase(done), simrt.RecvCase(r.ev), simrt.RecvCase(tm.C)).I
		tm.Stop()
		if i == 0 {
			return true
		}
	}
}

// reviveIfKilled: when a disk fault has killed the agent's process, the kernel's part of the exit is done here (descriptors and
// sockets vanish) and the agent is started again on the same disk a little later, as a service supervisor does
func (r *aRun) reviveIfKilled() bool {
	if r.killedGen == 0 || r.agent == nil || r.agent.gen != r.killedGen {
		return false
	}
	a := r.agent
	r.killedGen = 0
	r.kills++
	r.out.probe("agent_process_killed_and_started_again", 1)
	r.fs.DropHandlesOf(a.gen)
	r.net.ProcessDied()
	simsignal.Reset()
	r.agent = nil
	r.stopping = false
	r.stopSince = 0
	r.notify()
	simrt.Sleep("a.driver.revive", 100*time.Millisecond)
	r.writeConfig("")
	return r.startAgent()
}

// pause lets d of simulated time pass; in scenarios with disk faults it also restarts an agent whose process was killed meanwhile
func (r *aRun) pause(site string, d time.Duration) {
	if len(r.s.DiskFaults) == 0 {
		simrt.Sleep(site, d)
		return
	}
	end := simrt.Now() + d
	for {
		r.reviveIfKilled()
		left := end - simrt.Now()
		if left <= 0 {
			return
		}
		waitEv(site, r.ev, left)
	}
}

// diskFaultHook applies the scenario's disk faults to the operations on chunk files
func (r *aRun) diskFaultHook(op simfs.Op) simfs.Action {
	if r.noMoreDiskFaults || !strings.Contains(op.Path, ".ff") {
		return simfs.Action{}
	}
	key := fmt.Sprintf("%d/%s", op.Gen, op.Kind)
	n := r.diskOpCount[key]
	r.diskOpCount[key] = n + 1
	if e := r.stickyErr[op.Gen]; e != 0 && op.Kind == "write" {
		r.out.fault("write_error_on_a_disk_that_stays_full", 1)
		return simfs.Action{Err: e}
	}
	for _, f := range r.s.DiskFaults {
		if f.Gen != op.Gen || f.OpKind != op.Kind || f.Nth != n {
			continue
		}
		a := simfs.Action{}
		switch f.Action {
		case "short":
			a.ShortSet, a.Short = true, min(f.Bytes, max(0, op.Len-1))
			r.out.fault("short_write", 1)
		case "err":
			a.Err = errnoOf(f.Errno)
			r.out.fault(op.Kind+"_error", 1)
		case "shorterr":
			a.ShortSet, a.Short = true, min(f.Bytes, op.Len)
			a.Err = errnoOf(f.Errno)
			r.out.fault("write_partial_then_error", 1)
			if f.Sticky {
				r.stickyErr[op.Gen] = a.Err
			}
		case "kill":
			a.Kill = true
			if op.Kind == "write" {
				a.ShortSet, a.Short = true, op.Len // the write completed, then the process died
			}
			r.out.fault("kill_at_"+op.Kind, 1)
		case "shortkill":
			a.Kill = true
			a.ShortSet, a.Short = true, min(f.Bytes, op.Len)
			r.out.fault("kill_mid_write", 1)
		}
		return a
	}
	return simfs.Action{}
}

// stopAgent performs the graceful shutdown of run.Run (inputs, then orchestrator) and the process exit
func (r *aRun) stopAgent() {
	a := r.agent
	if a == nil {
		return
	}
	r.stopping = true
	t0 := simrt.Now()
	r.stopSince = t0 + 1
	bug0 := strings.Count(r.logbuf.String(), "BUG:")
	if !r.runAgentCode(fmt.Sprintf("agent%d.stop", a.gen), a.gen, 3*c18Bound(), func() {
		a.shutIn()
		a.orch.Shutdown()
	}) {
		if r.killedGen == a.gen {
			// the process was killed during its shutdown: it is started again, like after any other kill
			r.reviveIfKilled()
			return
		}
		// the stop did not return within three times the bound: the run ends here and is judged as a hung shutdown
		r.stopHung = true
		return
	}
	took := simrt.Now() - t0
	r.stopSince = 0
	st := aStop{Gen: a.gen, At: t0, Took: took, BugLines: strings.Count(r.logbuf.String(), "BUG:") - bug0}
	dump := ""
	func() {
		// gathering fails (panics in this helper, HTTP 500 on the real endpoint) when two metrics collide or a label is invalid
		defer func() {
			if e := recover(); e != nil {
				r.metricsErr = clip(fmt.Sprint(e), 1500)
			}
		}()
		dump = promext.DumpMetricsFrom("", true, false, r.currentLoader().GetMetricQuerier())
	}()
	if os.Getenv("VERIF_DUMP_METRICS") != "" {
		fmt.Fprintln(os.Stderr, dump)
	}
	st.Metrics = parseMetrics(dump)
	// the process exits
	simrt.FreezeGen(a.gen)
	r.fs.DropHandlesOf(a.gen)
	r.net.ResetAll(func(c *simnet.TCPConn) bool { return c.FD() != 0 })
	simsignal.Reset()
	st.Files = r.fs.Files(aBufRoot)
	if r.s.Out2 {
		st.Files2 = r.fs.Files(aBufRoot2)
	}
	if r.s.Datadog {
		st.FilesDD = r.fs.Files(aBufRootDD)
	}
	r.stops = append(r.stops, st)
	r.agent = nil
	r.stopping = false
	r.notify()
}

func (r *aRun) drive() {
	s := r.s
	r.ev = make(chan struct{})
	r.fs = simfs.Reset()
	r.net = simnet.Reset()
	r.net.DefaultRx = 64 << 10
	simsignal.Reset()
	r.fs.MkdirAllRaw(aBufRoot)
	r.fs.Umask = uint32(s.Umask)
	if s.IDFault > 0 {
		r.fs.Hook = func(op simfs.Op) simfs.Action {
			if op.Kind == "write" && op.Gen == s.IDFault && strings.HasSuffix(op.Path, "/.id") {
				r.out.fault("id_file_write_enospc", 1)
				return simfs.Action{Err: syscall.ENOSPC}
			}
			return simfs.Action{}
		}
	}
	if len(s.DiskFaults) > 0 {
		r.diskOpCount = map[string]int{}
		r.stickyErr = map[int]syscall.Errno{}
		r.fs.Hook = r.diskFaultHook
		r.fs.OnKill = func(gen int) {
			r.killedGen = gen
			r.notify()
		}
	}
	r.setKnobs()
	r.writeConfig("")
	if r.out.Harness != "" {
		return
	}
	r.srv = newAServer(r)
	r.srv.start()
	if s.Datadog {
		r.fs.MkdirAllRaw(aBufRootDD)
	}
	if s.Out2 {
		r.fs.MkdirAllRaw(aBufRoot2)
		r.srv2 = newAServer(r)
		r.srv2.addr, r.srv2.healthyOnly, r.srv2.name = aUpstreamAddr2, s.Profile != "c01two" && s.Profile != "c18" && s.Profile != "c17a", "fluentd2"
		r.srv2.start()
	}
	if !r.startAgent() {
		return
	}
	pending := len(s.Clients)
	for ci := range s.Clients {
		cs := &aClientState{r: r, idx: ci, spec: &s.Clients[ci]}
		r.clients = append(r.clients, cs)
		simrt.GoNamed(fmt.Sprintf("client%d", ci), 0, func() {
			cs.run()
			pending--
			r.notify()
		})
	}
	// timed events, in order
	for ei, ev := range s.Events {
		if d := ms(ev.AtMs) - simrt.Now(); d > 0 {
			r.pause("a.driver.event", d)
		}
		switch ev.Kind {
		case "restart":
			r.out.fault("graceful_restart", 1)
			r.reviveIfKilled()
			if r.agent == nil {
				return
			}
			gen0 := r.agent.gen
			r.stopAgent()
			if r.stopHung {
				return
			}
			if r.agent != nil && r.agent.gen != gen0 {
				break // killed during the shutdown and started again already
			}
			simrt.Sleep("a.driver.restart", 100*time.Millisecond)
			r.writeConfig("")
			if !r.startAgent() {
				return
			}
		case "clock_back":
			// the wall clock is stepped back (NTP, VM resume); chunk ids are made from it
			simrt.StepWallClock(-ms(ev.N))
			r.out.fault("wall_clock_stepped_back", 1)
		case "stall":
			if n := simrt.Stall(ev.Site, ms(ev.N)); n > 0 {
				r.out.fault("agent_goroutines_held_longer_than_the_channel_timeout", n)
			}
		case "sigusr1":
			if simsignal.Deliver(syscall.SIGUSR1) > 0 {
				r.out.fault("sigusr1_delivered", 1)
			}
		case "sighup_valid", "sighup_invalid", "sighup_incompatible", "sighup_addoutput", "sighup_badenvfield", "sighup_noorchestration", "sighup_badpattern":
			variant := map[string]string{"sighup_valid": "valid2", "sighup_invalid": "invalid", "sighup_incompatible": "incompatible",
				"sighup_addoutput": "addoutput", "sighup_badenvfield": "badenvfield", "sighup_noorchestration": "noorchestration", "sighup_badpattern": "badpattern"}[ev.Kind]
			r.writeConfig(variant)
			if simsignal.Deliver(syscall.SIGHUP) > 0 {
				r.out.fault(ev.Kind, 1)
				r.reloads = append(r.reloads, variant)
			}
			// the reload reads the file asynchronously; keep it in place for a while - unless the scenario asks for a stop at the
			// same moment (a restart scheduled for the same millisecond): then the stop request races with the reload
			if ei+1 < len(s.Events) && s.Events[ei+1].Kind == "restart" && s.Events[ei+1].AtMs == ev.AtMs {
				break
			}
			simrt.Sleep("a.driver.reload", 50*time.Millisecond)
		}
	}
	for pending > 0 {
		if revived := r.reviveIfKilled(); r.out.Harness != "" {
			return
		} else if revived {
			continue // (time has passed meanwhile: look at the clients again before waiting)
		}
		waitEv("a.driver.clients", r.ev, -1)
	}
	if len(s.DiskFaults) > 0 {
		// the fault-free tail of C04 in world A: no more disk faults, then one more graceful restart, so that the last generation
		// starts on whatever the faults and kills have left in the queue directories and has to deal with it
		r.reviveIfKilled()
		r.noMoreDiskFaults = true
		if r.agent == nil {
			return
		}
		r.stopAgent()
		if r.stopHung {
			return
		}
		simrt.Sleep("a.driver.restart", 100*time.Millisecond)
		if dirs := r.fs.Dirs(aBufRoot); s.PlantDamaged && len(dirs) > 0 {
			// what a crash of an older, non-atomic writer or an operator's mistake leaves behind: never forwarded, and it does
			// not block the chunks around it (the empty one sorts before every real chunk)
			sort.Strings(dirs)
			r.fs.PutFile(aBufRoot+"/"+dirs[0]+"/0000000000000000001-00000000.ff", nil)
			r.fs.PutFile(aBufRoot+"/"+dirs[0]+"/0946684800000000001-00000000.ff.tmp", []byte("\x93\xa5stray"))
			r.out.fault("planted_zero_length_and_temporary_file", 1)
		}
		r.filesAtLastStart = r.fs.Files(aBufRoot)
		if !r.startAgent() {
			return
		}
	}
	// fault-free tail: the upstream is healthy from now on (or from HealAtMs, whichever is later)
	r.healthyFrom = max(simrt.Now(), ms(s.HealAtMs))
	if !s.FinalStop {
		// bounded liveness: everything the agent has read is acknowledged within L of the moment faults stopped
		rot := time.Duration(0)
		if s.MaxDurMs > 0 {
			rot = ms(s.MaxDurMs)
		}
		sendTO := defs.ForwarderBatchSendTimeoutBase + 10*time.Second
		L := rot + defs.ForwarderAckerStopTimeout + 2*(defs.ForwarderBatchAckTimeout+defs.ForwarderRetryInterval) + sendTO +
			defs.ForwarderConnectionTimeout + defs.ForwarderPingInterval + 3*ms(s.FlushMs) + 3*defs.IntermediateFlushInterval + 5*time.Second
		deadline := r.healthyFrom + L
		drained := func() bool {
			if s.Profile != "c06" {
				return true
			}
			// for C06 the queues found at start-up must be reattached and emptied, not just acknowledged once upstream
			for p := range r.fs.Files(aBufRoot) {
				if strings.HasSuffix(p, ".ff") {
					return false
				}
			}
			return true
		}
		if s.Profile == "c04a" {
			// records that a kill or a counted drop has taken away never arrive: wait until the queue directories are empty and have
			// been for 30 simulated seconds, or the bound has passed
			emptySince := time.Duration(-1)
			for {
				empty := true
				for p := range r.fs.Files(aBufRoot) {
					if strings.HasSuffix(p, ".ff") {
						empty = false
					}
				}
				if !empty {
					emptySince = -1
				} else if emptySince < 0 {
					emptySince = simrt.Now()
				}
				if r.allDelivered() && empty || empty && simrt.Now()-emptySince >= 30*time.Second {
					break
				}
				left := deadline - simrt.Now()
				if left <= 0 {
					r.notDrained = !empty
					break
				}
				waitEv("a.driver.liveness", r.srv.ev, min(left, time.Second))
			}
		}
		for s.Profile != "c04a" && (!r.allDelivered() || !drained()) {
			left := deadline - simrt.Now()
			if left <= 0 {
				r.finalDeadlineHit = true
				break
			}
			waitEv("a.driver.liveness", r.srv.ev, min(left, time.Second))
		}
	} else {
		simrt.Sleep("a.driver.finalpause", ms([]int{0, 1, 600, 1500}[len(s.Clients)%4]))
	}
	if strings.HasPrefix(s.Profile, "c07") {
		simrt.Sleep("a.driver.c07grace", 10*time.Second)
	}
	r.stopAgent()
	if r.stopHung {
		return
	}
	r.srv.stop()
	if r.srv2 != nil {
		r.srv2.stop()
	}
}
