// Package harness contains the simulated worlds, their workloads, fault scripts and oracles, plus the
// run loop, minimiser and replay machinery shared by all of them.
package harness

import (
	"encoding/json"
	"fmt"
	"hash/fnv"
	"os"
	"sort"
	"strings"
	"testing"
	"time"

	"verif.local/sim/simrt"
)

// Violation is one oracle failure
type Violation struct {
	Property string `json:"property"`
	Rule     string `json:"rule"`      // oracle rule id, e.g. "S1"
	Sig      string `json:"signature"` // identity used for de-duplication and known-findings matching
	Detail   string `json:"detail"`
}

func (v Violation) Class() string { return v.Property + "/" + v.Rule + "/" + v.Sig }

// Outcome is what one run produced
type Outcome struct {
	Violations  []Violation
	Res         simrt.Result
	Faults      map[string]int // fault kinds that actually fired
	Probes      map[string]int // "rare condition was hit" counters
	Obligations int            // oracle obligations evaluated
	Nontrivial  bool
	Sample      any
	Harness     string // harness trouble (exit 2 class)
	Log         string
	Aux         any // world-specific data handed to Expand
}

func (o *Outcome) fault(k string, n int) {
	if n == 0 {
		return
	}
	if o.Faults == nil {
		o.Faults = map[string]int{}
	}
	o.Faults[k] += n
}

func (o *Outcome) probe(k string, n int) {
	if n == 0 {
		return
	}
	if o.Probes == nil {
		o.Probes = map[string]int{}
	}
	o.Probes[k] += n
}

func (o *Outcome) violate(prop, rule, sig, format string, args ...any) {
	o.Violations = append(o.Violations, Violation{prop, rule, sig, fmt.Sprintf(format, args...)})
}

// World is one simulated world bound to one property profile
type World interface {
	// Generate draws a scenario (plain JSON-serialisable data) for the profile
	Generate(r *simrt.Rand, profile string, tier string) any
	// Decode parses a scenario from a replay file
	Decode(raw json.RawMessage) (any, error)
	// Run executes the scenario under the scheduler configuration and evaluates the oracle
	Run(t *testing.T, profile string, sc any, cfg simrt.Config) *Outcome
	// Shrink proposes simpler scenarios (may be nil)
	Shrink(sc any) []any
}

// Expander is implemented by worlds that enumerate fault placements: after the fault-free base run of a scenario,
// Expand returns one derived scenario per fault point of the recorded trace; each is executed under the same seed
type Expander interface {
	Expand(profile string, sc any, base *Outcome, r *simrt.Rand) []any
}

var worlds = map[string]World{}

// Replay is the on-disk form of one execution
type Replay struct {
	World     string          `json:"world"`
	Profile   string          `json:"profile"`
	Property  string          `json:"property"`
	Seed      uint64          `json:"seed"`
	RunIndex  int             `json:"run_index"`
	Scenario  json.RawMessage `json:"scenario"`
	Stick     int             `json:"stickiness"`
	Decisions []uint32        `json:"decisions"`
	Expect    *Violation      `json:"expect,omitempty"`
	Note      string          `json:"note,omitempty"`
	Trace     []string        `json:"trace,omitempty"`
}

func runSeed(base uint64, idx int) uint64 {
	h := fnv.New64a()
	fmt.Fprintf(h, "%d/%d", base, idx)
	return h.Sum64() | 1
}

// WorkerSummary is what a worker process reports to the check driver
type WorkerSummary struct {
	World       string            `json:"world"`
	Profile     string            `json:"profile"`
	Runs        int               `json:"runs"`
	Steps       int64             `json:"steps"`
	Switches    int64             `json:"switches"`
	SimSeconds  float64           `json:"sim_seconds"`
	WallSeconds float64           `json:"wall_seconds"`
	Faults      map[string]int    `json:"faults"`
	Probes      map[string]int    `json:"probes"`
	Obligations int64             `json:"obligations"`
	Interleave  []uint64          `json:"interleavings"` // distinct context-switch hashes
	Nontrivial  []uint64          `json:"nontrivial"`    // distinct (scenario, interleaving) hashes of non-trivial runs
	Violations  []FoundViolation  `json:"violations"`
	Samples     []json.RawMessage `json:"samples"`
	Harness     string            `json:"harness_error"`
	CapHits     map[string]int    `json:"cap_hits"`
	Seeds       []uint64          `json:"seeds_sample"`
	RunHashes   []uint64          `json:"run_hashes,omitempty"` // per-run execution hashes (determinism self-test)
}

// FoundViolation is a violation with its replay file
type FoundViolation struct {
	Violation
	RunIndex  int    `json:"run_index"`
	Seed      uint64 `json:"seed"`
	Replay    string `json:"replay"`
	Count     int    `json:"count"`
	Minimised bool   `json:"minimised"`
}

func hash64(parts ...any) uint64 {
	h := fnv.New64a()
	for _, p := range parts {
		fmt.Fprintf(h, "%v|", p)
	}
	return h.Sum64()
}

func scenarioHash(sc any) uint64 {
	b, _ := json.Marshal(sc)
	h := fnv.New64a()
	h.Write(b)
	return h.Sum64()
}

// Worker runs a slice of run indices and returns the summary
func Worker(t *testing.T, worldName, profile, property, tier string, base uint64, from, to, stride int, replayDir string, budget time.Duration) *WorkerSummary {
	if stride < 1 {
		stride = 1
	}
	w := worlds[worldName]
	if w == nil {
		return &WorkerSummary{Harness: "unknown world " + worldName}
	}
	sum := &WorkerSummary{World: worldName, Profile: profile, Faults: map[string]int{}, Probes: map[string]int{}, CapHits: map[string]int{}}
	inter := map[uint64]bool{}
	nontriv := map[uint64]bool{}
	seen := map[string]*FoundViolation{}
	wallStart := time.Now()
	stopAll := false
	runOne := func(sc any, seed uint64, idx int, sub int, stick int) *Outcome {
		cfg := simrt.Config{Seed: seed, Stickiness: stick}
		if d := os.Getenv("VERIF_DUMP_EVENTS"); d != "" {
			cfg.LogEvents = true
		}
		armWatchdog(fmt.Sprintf("world=%s profile=%s seed=%d idx=%d sub=%d", worldName, profile, base, idx, sub))
		out := w.Run(t, profile, sc, cfg)
		disarmWatchdog()
		sum.Runs++
		if d := os.Getenv("VERIF_DUMP_EVENTS"); d != "" {
			_ = os.WriteFile(fmt.Sprintf("%s.%d.%d", d, idx, sub), []byte(strings.Join(out.Res.Events, "\n")+"\n"+out.Log), 0o644)
		}
		sum.Steps += int64(out.Res.Steps)
		sum.Switches += int64(out.Res.Switches)
		sum.SimSeconds += out.Res.SimTime.Seconds()
		sum.Obligations += int64(out.Obligations)
		for k, v := range out.Faults {
			sum.Faults[k] += v
		}
		for k, v := range out.Probes {
			sum.Probes[k] += v
		}
		if out.Res.CapHit != "" {
			sum.CapHits[out.Res.CapHit]++
		}
		inter[out.Res.InterleaveH] = true
		if os.Getenv("VERIF_RUNHASH") != "" {
			vs := ""
			for _, v := range out.Violations {
				vs += v.Class() + ";"
			}
			sum.RunHashes = append(sum.RunHashes, hash64(out.Res.EventH, out.Res.Steps, len(out.Res.Decisions), out.Res.SimTime, vs, out.Obligations, fmt.Sprint(out.Faults)))
		}
		if out.Nontrivial {
			nontriv[hash64(scenarioHash(sc), out.Res.InterleaveH)] = true
		}
		if len(sum.Seeds) < 5 && sub == 0 {
			sum.Seeds = append(sum.Seeds, seed)
		}
		if len(sum.Samples) < 2 && out.Sample != nil && (out.Nontrivial || (idx == from && sub == 0)) {
			b, _ := json.Marshal(out.Sample)
			sum.Samples = append(sum.Samples, b)
		}
		if out.Res.HarnessError != "" || out.Harness != "" {
			sum.Harness = fmt.Sprintf("run %d.%d seed %d: %s %s", idx, sub, seed, out.Res.HarnessError, out.Harness)
			stopAll = true
			return out
		}
		for _, v := range out.Violations {
			if v.Property == "" {
				v.Property = property
			}
			if fv := seen[v.Class()]; fv != nil {
				fv.Count++
				continue
			}
			fv := &FoundViolation{Violation: v, RunIndex: idx, Seed: seed, Count: 1}
			seen[v.Class()] = fv
			if len(seen) <= 4 && !knownClass(v.Class()) {
				rp := minimise(t, w, worldName, profile, sc, cfg, out, v, seed, idx)
				name := sanitize(v.Rule)
				if v.Sig != v.Rule {
					name += "-" + clipName(sanitize(v.Sig), 60) // two classes of one rule in one run must not share a file
				}
				path := fmt.Sprintf("%s/%s-%d-%d-%s.json", replayDir, v.Property, base, idx, name)
				writeReplay(path, rp)
				fv.Replay = path
				fv.Minimised = true
			}
		}
		return out
	}
	for idx := from; idx < to && !stopAll; idx += stride {
		if budget > 0 && time.Since(wallStart) > budget {
			break
		}
		seed := runSeed(base, idx)
		r := simrt.NewRand(seed)
		sc := w.Generate(r, profile, tier)
		if f, ok := sc.(interface{ SetFine(bool) }); ok {
			f.SetFine(r.Bool(10)) // (world A draws this itself, per profile)
		}
		stick := []int{0, 30, 60, 80, 90, 95, 98}[r.Intn(7)]
		out := runOne(sc, seed, idx, 0, stick)
		if ex, ok := w.(Expander); ok && !stopAll {
			for i, v := range ex.Expand(profile, sc, out, r) {
				if stopAll {
					break
				}
				runOne(v, seed, idx, i+1, stick)
			}
		}
	}
	for _, fv := range seen {
		sum.Violations = append(sum.Violations, *fv)
	}
	sort.Slice(sum.Violations, func(i, j int) bool { return sum.Violations[i].RunIndex < sum.Violations[j].RunIndex })
	for h := range inter {
		sum.Interleave = append(sum.Interleave, h)
	}
	for h := range nontriv {
		sum.Nontrivial = append(sum.Nontrivial, h)
	}
	sum.WallSeconds = time.Since(wallStart).Seconds()
	return sum
}

// violation classes listed as known findings are counted but not minimised (the check driver passes them in)
func knownClass(class string) bool {
	for _, k := range strings.Split(os.Getenv("VERIF_KNOWN"), ";") {
		if k != "" && k == class {
			return true
		}
	}
	return false
}

func sanitize(s string) string {
	return strings.Map(func(r rune) rune {
		if r >= 'a' && r <= 'z' || r >= 'A' && r <= 'Z' || r >= '0' && r <= '9' || r == '-' || r == '_' {
			return r
		}
		return '_'
	}, s)
}

func writeReplay(path string, rp *Replay) {
	b, _ := json.MarshalIndent(rp, "", " ")
	_ = os.MkdirAll(dirOf(path), 0o755)
	if err := os.WriteFile(path, b, 0o644); err != nil {
		fmt.Fprintln(os.Stderr, "cannot write replay:", err)
	}
}

func dirOf(p string) string {
	if i := strings.LastIndexByte(p, '/'); i >= 0 {
		return p[:i]
	}
	return "."
}

func hasClass(out *Outcome, property, class string) *Violation {
	for i := range out.Violations {
		v := out.Violations[i]
		if v.Property == "" {
			v.Property = property
		}
		if v.Class() == class {
			return &out.Violations[i]
		}
	}
	return nil
}

// minimise shrinks the scenario, then the decision list, keeping the same violation class
func clipName(s string, n int) string {
	if len(s) > n {
		return s[len(s)-n:]
	}
	return s
}

func minimise(t *testing.T, w World, worldName, profile string, sc any, cfg simrt.Config, out *Outcome, v Violation, seed uint64, idx int) *Replay {
	class := v.Class()
	prop := v.Property
	best := sc
	bestDec := out.Res.Decisions
	budget := time.Now().Add(20 * time.Second)
	tries := 0
	try := func(s any, dec []uint32) (*Outcome, bool) {
		tries++
		armWatchdog("minimise " + class)
		o := w.Run(t, profile, s, simrt.Config{Seed: seed, Replay: dec, ReplayMode: true, Stickiness: cfg.Stickiness})
		disarmWatchdog()
		if o.Res.HarnessError != "" || o.Harness != "" {
			return o, false
		}
		return o, hasClass(o, prop, class) != nil
	}
	// phase 1: scenario shrinking (decisions replayed as far as they go; exhausted -> 0)
	for progress := true; progress && time.Now().Before(budget); {
		progress = false
		for _, cand := range w.Shrink(best) {
			if time.Now().After(budget) {
				break
			}
			if o, ok := try(cand, bestDec); ok {
				best, bestDec = cand, o.Res.Decisions
				progress = true
				break
			}
			// also try with all-default decisions
			if o, ok := try(cand, nil); ok {
				best, bestDec = cand, o.Res.Decisions
				progress = true
				break
			}
		}
	}
	// phase 2: decision shrinking: truncate tail, then zero blocks (delta debugging)
	if o, ok := try(best, nil); ok {
		bestDec = o.Res.Decisions
	}
	for n := len(bestDec) / 2; n >= 1 && time.Now().Before(budget); n /= 2 {
		for start := 0; start < len(bestDec) && time.Now().Before(budget); start += n {
			end := min(start+n, len(bestDec))
			allZero := true
			for _, d := range bestDec[start:end] {
				if d != 0 {
					allZero = false
				}
			}
			if allZero {
				continue
			}
			cand := append([]uint32(nil), bestDec...)
			for i := start; i < end; i++ {
				cand[i] = 0
			}
			if o, ok := try(best, cand); ok {
				bestDec = o.Res.Decisions
			}
		}
	}
	// drop trailing zeros
	for len(bestDec) > 0 && bestDec[len(bestDec)-1] == 0 {
		bestDec = bestDec[:len(bestDec)-1]
	}
	// final confirmation run with event trace
	armWatchdog("minimise-final " + class)
	fo := w.Run(t, profile, best, simrt.Config{Seed: seed, Replay: bestDec, ReplayMode: true, Stickiness: cfg.Stickiness, LogEvents: true})
	disarmWatchdog()
	rp := &Replay{World: worldName, Profile: profile, Property: prop, Seed: seed, RunIndex: idx, Stick: cfg.Stickiness, Decisions: bestDec}
	if fv := hasClass(fo, prop, class); fv != nil {
		vv := *fv
		vv.Property = prop
		rp.Expect = &vv
		rp.Trace = headTail(fo.Res.Events, 150)
	} else {
		// shrinking lost the violation at the last step (should not happen): fall back to the original
		best, bestDec = sc, out.Res.Decisions
		rp.Decisions = bestDec
		vv := v
		rp.Expect = &vv
		rp.Note = "minimisation fell back to the original execution"
	}
	b, _ := json.Marshal(best)
	rp.Scenario = b
	rp.Note += fmt.Sprintf(" minimiser runs=%d", tries)
	return rp
}

func headTail(s []string, n int) []string {
	if len(s) > 2*n {
		out := append([]string(nil), s[:n]...)
		out = append(out, fmt.Sprintf("... %d events omitted ...", len(s)-2*n))
		return append(out, s[len(s)-n:]...)
	}
	return s
}

// ReplayFile re-executes a replay file and reports whether the expected violation reproduced
func ReplayFile(t *testing.T, path string) (reproduced bool, detail string) {
	b, err := os.ReadFile(path)
	if err != nil {
		return false, err.Error()
	}
	var rp Replay
	if err := json.Unmarshal(b, &rp); err != nil {
		return false, err.Error()
	}
	w := worlds[rp.World]
	if w == nil {
		return false, "unknown world " + rp.World
	}
	sc, err := w.Decode(rp.Scenario)
	if err != nil {
		return false, err.Error()
	}
	armWatchdog("replay " + path)
	out := w.Run(t, rp.Profile, sc, simrt.Config{Seed: rp.Seed, Replay: rp.Decisions, ReplayMode: true, Stickiness: rp.Stick, LogEvents: true})
	disarmWatchdog()
	if out.Res.HarnessError != "" || out.Harness != "" {
		return false, "harness error: " + out.Res.HarnessError + out.Harness
	}
	var sb strings.Builder
	for _, v := range out.Violations {
		if v.Property == "" {
			v.Property = rp.Property
		}
		fmt.Fprintf(&sb, "%s: %s\n", v.Class(), v.Detail)
		if rp.Expect != nil && v.Class() == rp.Expect.Class() {
			reproduced = true
		}
	}
	if rp.Expect == nil {
		reproduced = len(out.Violations) > 0
	}
	if os.Getenv("VERIF_REPLAY_VERBOSE") != "" {
		for _, e := range out.Res.Events {
			sb.WriteString(e + "\n")
		}
		sb.WriteString(out.Log)
	}
	return reproduced, sb.String()
}

// runAs executes f on a goroutine tagged with the given generation (code of the system under test always runs on
// goroutines of its generation, like a process's own threads) and waits for it to return. It reports false if the
// generation was frozen (killed) before f returned.
// runAsWithin is runAs that gives up after d of simulated time; it reports whether f returned.
func runAsWithin(name string, gen int, d time.Duration, f func()) bool {
	done := make(chan struct{})
	simrt.GoNamed(name, gen, func() {
		f()
		close(done)
	})
	tm := time.NewTimer(d)
	defer tm.Stop()
	return simrt.Select("runAs "+name, false, simrt.RecvCase(done), simrt.RecvCase(tm.C)).I == 0
}

func runAs(name string, gen int, f func()) bool {
	done := make(chan struct{})
	simrt.GoNamed(name, gen, func() {
		f()
		close(done)
	})
	simrt.Recv("runAs "+name, done)
	return true
}
