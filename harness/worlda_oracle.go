package harness

import (
	"bytes"
	"compress/gzip"
	"encoding/json"
	"fmt"
	"io"
	"os"
	"path/filepath"
	"reflect"
	"regexp"
	"sort"
	"strings"
	"time"

	"github.com/relex/fluentlib/protocol/forwardprotocol"
	"github.com/relex/gotils/logger"
	"github.com/relex/gotils/promexporter/promreg"
	"github.com/relex/slog-agent/base"
	"github.com/relex/slog-agent/base/bsupport"
	"github.com/relex/slog-agent/defs"
	"github.com/relex/slog-agent/run"
	"github.com/vmihailenco/msgpack/v4"
)

// aReference runs the real parse -> transform -> serialize code on a fresh, single-record pipeline outside the
// concurrent system: the differential oracle for "what a record should look like upstream"
type aReference struct {
	conf    run.Config
	schema  base.LogSchema
	cache   map[string]*aRefResult
	outIdx  int    // which output's serializer the reference uses
	rawOnly bool   // the output's streams are not msgpack events (Datadog JSON): only raw and size are filled
	tag     string // tag given to the serializer (the Datadog format carries it inside every record); "" = "ref"
}

type aRefResult struct {
	entry   *forwardprotocol.EventEntry
	dropped bool   // dropped by a transform
	failed  bool   // rejected by the parser
	size    int    // serialized length
	raw     []byte // the serialized stream itself (kept for outputs whose streams are not msgpack: Datadog)
}

func newAReference(yaml string) (*aReference, error) {
	dir, err := os.MkdirTemp("", "verif-ref-")
	if err != nil {
		return nil, err
	}
	defer os.RemoveAll(dir)
	p := filepath.Join(dir, "ref.yml")
	if err := os.WriteFile(p, []byte(yaml), 0o644); err != nil {
		return nil, err
	}
	conf, schema, _, err := run.ParseConfigFile(p)
	if err != nil {
		return nil, err
	}
	return &aReference{conf: conf, schema: schema, cache: map[string]*aRefResult{}}, nil
}

// eval processes one framed message (no trailing newline) on a pipeline built from scratch
func (ref *aReference) eval(message string) (res *aRefResult) {
	ck := message
	tag := "ref"
	if ref.tag != "" {
		tag = ref.tag
		ck = tag + "\x00" + message
	}
	if r, ok := ref.cache[ck]; ok {
		return r
	}
	res = &aRefResult{}
	ref.cache[ck] = res
	defer func() {
		// the sequential code itself may panic on hostile input (that is what C07 reports from inside the agent); the
		// reference then simply has no opinion
		if p := recover(); p != nil {
			res.failed = true
			res.entry = nil
		}
	}()
	mf := promreg.NewMetricFactory("ref_", nil, nil)
	alloc := base.NewLogAllocator(ref.schema, len(ref.conf.OutputBuffersPairs))
	inputCounter := base.NewLogInputCounter(mf.AddOrGetPrefix("input_", nil, nil))
	parser, err := ref.conf.Inputs[0].Value.NewParser(logger.Root(), alloc, ref.schema, inputCounter)
	if err != nil {
		res.failed = true
		return res
	}
	procCounter := base.NewLogProcessCounter(mf.AddOrGetPrefix("process_", nil, nil), ref.schema,
		ref.schema.MustCreateFieldLocators(ref.conf.MetricKeys), []string{ref.conf.OutputBuffersPairs[0].Name})
	transforms := bsupport.NewTransformsFromConfig(ref.conf.Transformations, ref.schema, logger.Root(), procCounter)
	serializer := ref.conf.OutputBuffersPairs[ref.outIdx].OutputConfig.Value.NewSerializer(logger.Root(), ref.schema, tag)
	record := parser.Parse([]byte(message), time.Unix(0, 0))
	if record == nil {
		res.failed = true
		return res
	}
	procCounter.SelectMetricKeySet(record)
	if bsupport.RunTransforms(record, transforms) == base.DROP {
		res.dropped = true
		return res
	}
	stream := serializer.SerializeRecord(record)
	res.size = len(stream)
	if ref.rawOnly {
		res.raw = append([]byte(nil), stream...)
		return res
	}
	var e forwardprotocol.EventEntry
	if err := msgpack.Unmarshal(stream, &e); err != nil {
		res.failed = true
		return res
	}
	res.entry = &e
	return res
}

func sameEvent(a, b *forwardprotocol.EventEntry, compareTime bool) string {
	if a == nil || b == nil {
		return "no reference event"
	}
	if compareTime && !a.Time.Equal(b.Time.Time) {
		return fmt.Sprintf("time %v vs reference %v", a.Time.UTC(), b.Time.UTC())
	}
	if !reflect.DeepEqual(a.Record, b.Record) {
		var keys []string
		for k := range a.Record {
			keys = append(keys, k)
		}
		for k := range b.Record {
			if _, ok := a.Record[k]; !ok {
				keys = append(keys, k)
			}
		}
		sort.Strings(keys)
		for _, k := range keys {
			if !reflect.DeepEqual(a.Record[k], b.Record[k]) {
				return fmt.Sprintf("field %q is %s, reference has %s", k, clip(fmt.Sprintf("%q", fmt.Sprint(a.Record[k])), 120), clip(fmt.Sprintf("%q", fmt.Sprint(b.Record[k])), 120))
			}
		}
		return "records differ"
	}
	return ""
}

func clip(s string, n int) string {
	if len(s) > n {
		return s[:n] + "..."
	}
	return s
}

// framedMessage is the message the framer hands to the parser for a record whose lines all arrived together
func framedMessage(sr *aSentRec) string { return strings.TrimSuffix(sr.line, "\n") }

type aDelivery struct {
	msg   *aMsg
	entry *forwardprotocol.EventEntry
}

// decodeChunkFile decodes a queue file as the Forward message it must be
func decodeChunkFile(data []byte) (*forwardprotocol.Message, error) {
	var m forwardprotocol.Message
	if err := msgpack.Unmarshal(data, &m); err != nil {
		return nil, err
	}
	return &m, nil
}

// aView is everything the oracles look at
type aView struct {
	ref        *aReference
	full       []*aSentRec
	partial    []*aSentRec
	byStamp    map[string]*aSentRec // fully read
	allSent    map[string]*aSentRec
	partialSt  map[string]*aSentRec
	tails      map[*aSentRec]string
	tailList   []string
	deliveries map[string][]aDelivery
	acked      map[string]bool
	onDisk     map[string]bool // after the last stop
	diskMsgs   map[string]*forwardprotocol.Message
	dropped    float64
}

var propOfProfile = map[string]string{
	"c01": "C01", "c01two": "C01", "nofault": "C01", "limits": "C01", "c05": "C05", "c06": "C06", "c07": "C07", "c07big": "C07", "c11": "C11", "c11big": "C11", "c11dd": "C11", "c12": "C12",
	"c17a": "C17", "c18": "C18", "c19": "C19", "c04a": "C04",
}

func (r *aRun) buildView(out *Outcome) *aView {
	s := r.s
	v := &aView{byStamp: map[string]*aSentRec{}, allSent: map[string]*aSentRec{}, partialSt: map[string]*aSentRec{}, tails: map[*aSentRec]string{},
		deliveries: map[string][]aDelivery{}, acked: map[string]bool{}, onDisk: map[string]bool{}, diskMsgs: map[string]*forwardprotocol.Message{}}
	ref, err := newAReference(s.configYAML(""))
	if err != nil {
		out.Harness = "reference config: " + err.Error()
		return nil
	}
	v.ref = ref
	v.full, v.partial = r.readRecords()
	for _, cs := range r.clients {
		for _, cr := range cs.conns {
			for _, sr := range cr.recs {
				v.allSent[stampOf(sr)] = sr
			}
			n := min(cr.agentRead, len(cr.sent))
			i := strings.LastIndexByte(string(cr.sent[:n]), '\n')
			if i+1 >= n {
				continue
			}
			tail := string(cr.sent[i+1 : n])
			v.tailList = append(v.tailList, tail)
			var lastFull *aSentRec
			for _, sr := range cr.recs {
				if sr.end <= i+1 {
					lastFull = sr
				}
			}
			if lastFull != nil {
				v.tails[lastFull] = tail
			}
		}
	}
	for _, sr := range v.full {
		v.byStamp[stampOf(sr)] = sr
	}
	for _, sr := range v.partial {
		v.partialSt[stampOf(sr)] = sr
	}
	for _, m := range r.srv.msgs {
		for i := range m.Entries {
			st := eventStamp(&m.Entries[i])
			v.deliveries[st] = append(v.deliveries[st], aDelivery{m, &m.Entries[i]})
			if m.AckSent {
				v.acked[st] = true
			}
		}
	}
	if len(r.stops) > 0 {
		last := &r.stops[len(r.stops)-1]
		for p, data := range last.Files {
			if !strings.HasSuffix(p, ".ff") {
				continue
			}
			m, derr := decodeChunkFile(data)
			if derr != nil {
				r.note("C11", "queue-file-undecodable", "queue-file-undecodable", "queue file %s does not decode as a Forward message: %v", p, derr)
				continue
			}
			v.diskMsgs[p] = m
			for i := range m.Entries {
				v.onDisk[eventStamp(&m.Entries[i])] = true
			}
		}
	}
	for _, st := range r.stops {
		for k, val := range st.Metrics {
			if strings.HasPrefix(k, "sim_process_buffer_dropped_chunks_total") {
				v.dropped += val
			}
		}
	}
	return v
}

// expected event of a fully read record, taking the documented exceptions into account; "" = matches
func (r *aRun) checkEvent(v *aView, sr *aSentRec, e *forwardprotocol.EventEntry) string {
	msg := framedMessage(sr)
	diff := sameEvent(e, v.ref.eval(msg).entry, true)
	if diff == "" {
		return ""
	}
	// a multi-line record may lose trailing continuation lines to a flush (C08); it then equals the reference of a prefix
	if sr.rec.Multi > 0 {
		lines := strings.Split(msg, "\n")
		for k := len(lines) - 1; k >= 1; k-- {
			if sameEvent(e, v.ref.eval(strings.Join(lines[:k], "\n")).entry, true) == "" {
				r.out.probe("multiline_record_split_by_flush", 1)
				return ""
			}
		}
	}
	// when the connection ended in the middle of the next line, FlushAll hands the unfinished line over together with
	// the record before it (exactly those bytes, nothing else)
	if tail := v.tails[sr]; tail != "" {
		if alt := v.ref.eval(msg + "\n" + tail); alt.entry != nil && sameEvent(e, alt.entry, true) == "" {
			r.out.probe("unfinished_line_attached_to_last_record", 1)
			return ""
		}
	}
	return diff
}

func (r *aRun) evaluate(out *Outcome) {
	s := r.s
	prop := propOfProfile[s.Profile]
	if prop == "" {
		prop = "C01"
	}
	if out.Res.Crash != nil {
		c := out.Res.Crash
		out.violate(prop, "crash", "crash:"+c.TopFrame("slog-agent", "gotils"), "goroutine %s of the agent panicked: %s\n%s", c.G, c.Value, clip(c.Stack, 3000))
		return
	}
	if out.Res.Stuck {
		out.violate(prop, "stuck", "driver", "driver stuck with nothing runnable (shutdown never returned?): %s", out.Res.StuckInfo)
		return
	}
	if r.stopHung {
		out.violate(prop, "stop-never-returned", "stop-never-returned", "the stop requested at %v had not returned after %v (bound %v)", r.stopSince-1, 3*c18Bound(), c18Bound())
		return
	}
	if out.Res.CapHit != "" && r.stopSince > 0 && out.Res.SimTime-(r.stopSince-1) > c18Bound() {
		out.violate(prop, "stop-never-returned", "stop-never-returned", "the stop requested at %v had not returned when the run was cut at %v (bound %v)", r.stopSince-1, out.Res.SimTime, c18Bound())
		return
	}
	if out.Res.CapHit != "" {
		// the run was cut before its final stop: its history is incomplete, so it is counted (cap_hits in the evidence) and not judged
		out.probe("run_cut_at_"+out.Res.CapHit+"_cap", 1)
		return
	}
	if out.Harness != "" {
		return
	}
	if r.metricsErr != "" {
		// (C19: the metrics must describe what happened; C07/C12: a record's bytes must not break or leak into them)
		out.violate(prop, "metrics-gather-failed", "metrics-gather-failed", "the agent's metrics could not be gathered: %s", r.metricsErr)
		return
	}
	v := r.buildView(out)
	if v == nil {
		return
	}
	switch prop {
	case "C01":
		r.oracleC01(v)
	case "C04":
		r.oracleC04A(v)
	case "C05":
		r.oracleC05(v)
	case "C06":
		r.oracleC06(v)
	case "C07":
		r.oracleC07(v)
	case "C11":
		r.oracleC11(v)
		if r.s.Datadog {
			r.oracleC11Datadog(v)
		}
	case "C12":
		r.oracleC12(v)
	case "C17":
		r.oracleC17(v)
	case "C18":
		r.oracleC18(v)
	case "C19":
		r.oracleC19(v)
	}
	for _, e := range r.srv.decodeErr {
		r.note("C11", "malformed-message", "malformed-message", "the upstream could not decode a message: %s", e)
	}
	seen := map[string]bool{}
	for _, n := range r.notes {
		p := strings.SplitN(n, "\x00", 4)
		if p[0] != prop || seen[p[1]+p[2]] {
			continue
		}
		seen[p[1]+p[2]] = true
		out.violate(p[0], p[1], p[2], "%s", p[3])
	}
	for _, pat := range []string{"aborted before queueing chunk for ack", "soft-stop requested while there are still pending", "received ACK to unknown chunk",
		"max session duration reached", "received a SIGUSR1", "recovered chunks count=", "BUG:", "queue overflow, drop", "space limit reached",
		"created new sink while old sink", "ignore malformed existing pipeline ID", "reloaded config", "failed to reload"} {
		out.probe("log:"+pat, strings.Count(out.Log, pat))
	}
	out.probe("messages_received", len(r.srv.msgs))
	out.probe("agent_processes_killed", r.kills)
	out.probe("pings_received", r.srv.pings)
	out.probe("records_fully_read", len(v.full))
	out.probe("records_on_disk_at_end", len(v.onDisk))
	out.probe("timer_ties", out.Res.TimerTies)
	if out.Res.SpawnStalls > 0 {
		out.fault("slow_goroutine_start", out.Res.SpawnStalls)
	}
	if out.Res.YieldStalls > 0 {
		out.fault("descheduled_goroutine", out.Res.YieldStalls)
	}
	if r.fs != nil {
		out.probe("fs_ops", r.fs.OpCount())
		out.probe("chunk_files_written", r.fs.Stats.Ops["rename"])
	}
	if r.net != nil {
		out.probe("fd_reuse", r.net.Stats.FdReuses)
		out.probe("partial_socket_writes", r.net.Stats.PartialWrites)
	}
	nf := 0
	for _, n := range out.Faults {
		nf += n
	}
	out.Nontrivial = nf > 0 && out.Obligations > 0
	var ms_ []string
	for i, m := range r.srv.msgs {
		if i >= 25 {
			ms_ = append(ms_, "...")
			break
		}
		ms_ = append(ms_, fmt.Sprintf("t=%v conn=%d attempt=%d tag=%s chunk=%s events=%d acked=%v", m.T, m.Conn, m.Attempt, m.Tag, m.ID, len(m.Entries), m.AckSent))
	}
	var ss []string
	for _, st := range r.stops {
		ss = append(ss, fmt.Sprintf("gen %d stopped at %v in %v, %d queue files", st.Gen, st.At, st.Took, len(st.Files)))
	}
	out.Sample = map[string]any{"scenario": s, "upstream_messages": ms_, "stops": ss}
	if os.Getenv("VERIF_REPLAY_VERBOSE") != "" {
		var sb strings.Builder
		for _, m := range r.srv.msgs {
			var sts []string
			for i := range m.Entries {
				sts = append(sts, eventStamp(&m.Entries[i]))
			}
			fmt.Fprintf(&sb, "UPSTREAM step=%d t=%v conn=%d attempt=%d tag=%s chunk=%s acked=%v events=%v\n", m.Step, m.T, m.Conn, m.Attempt, m.Tag, m.ID, m.AckSent, sts)
		}
		for _, st := range r.stops {
			var names []string
			for p := range st.Files {
				names = append(names, p)
			}
			sort.Strings(names)
			fmt.Fprintf(&sb, "STOP gen=%d at=%v took=%v files=%v\n", st.Gen, st.At, st.Took, names)
		}
		out.Log += sb.String()
	}
}

// ---------------------------------------------------------------------------------------------------------------
// C04 end to end (profile c04a): what the upstream receives after disk faults and kills

func (r *aRun) oracleC04A(v *aView) {
	out := r.out
	// (1) nothing truncated or altered is sent upstream: every message decodes completely, says how many events it carries, and
	// every event equals the event of its own record
	for _, e := range r.srv.decodeErr {
		r.note("C04", "corrupt-forwarded", "undecodable-message-upstream", "the upstream could not decode a message: %s", e)
	}
	type ck struct{ tag, id string }
	content := map[ck]string{}
	for _, m := range r.srv.msgs {
		out.Obligations++
		where := fmt.Sprintf("message at t=%v on upstream connection %d (chunk %s)", m.T, m.Conn, m.ID)
		if m.Size != len(m.Entries) {
			r.note("C04", "altered", "size-option-disagrees", "%s: option size=%d but the chunk carries %d events", where, m.Size, len(m.Entries))
		}
		// a chunk transmitted again - from memory, from its file, after a restart - is the same chunk
		var sb strings.Builder
		for i := range m.Entries {
			fmt.Fprintf(&sb, "%s|%v|%d;", eventStamp(&m.Entries[i]), m.Entries[i].Time, len(m.Entries[i].Record))
		}
		k := ck{m.Tag, m.ID}
		if prev, seen := content[k]; seen && prev != sb.String() {
			r.note("C04", "altered", "chunk-differs-between-transmissions", "%s: chunk %s of %s was transmitted before with other contents: [%s] then [%s]", where, m.ID, m.Tag, clip(prev, 120), clip(sb.String(), 120))
		}
		content[k] = sb.String()
	}
	for st, ds := range v.deliveries {
		sr := v.byStamp[st]
		if sr == nil || sr.rec.Raw != "" {
			continue
		}
		for _, d := range ds {
			out.Obligations++
			if diff := r.checkEvent(v, sr, d.entry); diff != "" {
				r.note("C04", "altered", "altered-upstream", "record %s arrived upstream altered after it went through the disk queue or not: %s", st, diff)
			}
		}
	}
	r.checkNoPhantoms(v, "C04")
	// (2) what a fault or a kill has left in the queue directories does not block the recovery of the rest: every chunk file the
	// last generation found at its start is gone when it stops (transmitted and acknowledged, or removed as corrupt and counted);
	// no file with a chunk's name is left that does not decode
	if len(r.stops) > 0 && r.filesAtLastStart != nil {
		last := r.stops[len(r.stops)-1]
		for p, data := range r.filesAtLastStart {
			if !strings.HasSuffix(p, ".ff") {
				continue
			}
			out.Obligations++
			if _, still := last.Files[p]; still {
				what := "intact"
				if _, derr := decodeChunkFile(data); derr != nil {
					what = fmt.Sprintf("damaged (%d bytes: %v)", len(data), derr)
				}
				r.note("C04", "recovery-blocked", "file-left-behind", "chunk file %s (%s) was in the queue when the last generation started and is still there after it ran with a healthy upstream and a fault-free disk for the whole bound", p, what)
			}
		}
		for p, data := range last.Files {
			if strings.HasSuffix(p, ".ff") {
				if _, derr := decodeChunkFile(data); derr != nil {
					r.note("C04", "corrupt-forwarded", "damaged-file-under-chunk-name", "after the final stop the queue holds %s (%d bytes), which does not decode as a chunk (%v) and would be forwarded by the next start", p, len(data), derr)
				}
			}
		}
	}
	if r.notDrained {
		r.note("C04", "recovery-blocked", "queue-not-drained", "chunk files were still in the queue when the bound had passed although the upstream was healthy and the disk fault-free")
	}
	// (3) without a kill, a record is missing only when a chunk was counted as dropped
	if r.kills == 0 {
		lost, first := 0, ""
		for _, sr := range v.full {
			if sr.rec.Raw != "" || sr.rec.Drop {
				continue
			}
			out.Obligations++
			if st := stampOf(sr); !v.acked[st] && !v.onDisk[st] {
				lost++
				if first == "" {
					first = st
				}
			}
		}
		if lost > 0 && v.dropped == 0 {
			r.note("C04", "unaccounted", "unaccounted-world-a", "%d records (first %s) are neither acknowledged nor on disk after disk faults without a kill, and dropped_chunks_total is 0", lost, first)
		}
		if lost > 0 {
			out.probe("records_lost_to_counted_disk_faults", lost)
		}
	}
}

// ---------------------------------------------------------------------------------------------------------------
// C01 at-least-once

func (r *aRun) oracleC01(v *aView) {
	s := r.s
	out := r.out
	dups := 0
	for _, sr := range v.full {
		if sr.rec.Raw != "" {
			continue
		}
		st := stampOf(sr)
		out.Obligations++
		if sr.rec.Drop {
			if len(v.deliveries[st]) > 0 {
				r.note("C01", "filtered-record-delivered", "filtered-record-delivered", "record %s carries the drop marker but was delivered upstream", st)
			}
			continue
		}
		if !v.acked[st] && !v.onDisk[st] {
			if v.dropped > 0 && s.Profile == "limits" {
				out.probe("records_lost_to_counted_overflow", 1)
			} else {
				where := "never transmitted"
				if len(v.deliveries[st]) > 0 {
					where = fmt.Sprintf("transmitted %d times but never acknowledged", len(v.deliveries[st]))
				}
				r.note("C01", "lost", "lost", "record %s (client %d) was read by the agent but is neither acknowledged upstream nor in the on-disk queue after the final stop (%s)", st, sr.client, where)
			}
		}
		if n := len(v.deliveries[st]); n > 1 {
			dups += n - 1
		}
		for _, d := range v.deliveries[st] {
			if diff := r.checkEvent(v, sr, d.entry); diff != "" {
				r.note("C01", "altered", "altered", "record %s arrived upstream altered: %s", st, diff)
			}
		}
	}
	r.checkNoPhantoms(v, "C01")
	if v.dropped > 0 && s.Profile != "limits" {
		r.note("C01", "unexpected-drop", "unexpected-drop", "dropped_chunks_total=%v in a profile without reachable limits", v.dropped)
	}
	if r.finalDeadlineHit {
		missing := 0
		first := ""
		// documented deferral: chunk files beyond the queue capacity are skipped at start-up and stay on disk for the next start
		deferred := s.Profile == "limits" && strings.Contains(r.logbuf.String(), "too many chunk files, skip")
		for _, sr := range v.full {
			if !sr.rec.Drop && sr.rec.Raw == "" && !v.acked[stampOf(sr)] {
				if deferred && v.onDisk[stampOf(sr)] {
					continue
				}
				missing++
				if first == "" {
					first = stampOf(sr)
				}
			}
		}
		if missing > 0 && !(v.dropped > 0 && s.Profile == "limits") {
			r.note("C01", "liveness", "liveness", "%d records (first %s) were not acknowledged within the bound after the upstream became healthy at %v", missing, first, r.healthyFrom)
		}
	}
	out.probe("duplicates_delivered", dups)
	if r.srv2 != nil && !r.srv2.healthyOnly {
		r.oracleC01SecondOutput(v)
	}
}

// secondOutputState collects what the second upstream acknowledged / received and what the second queue root holds after the last stop
func (r *aRun) secondOutputState(prop string) (acked, onDisk map[string]bool, deliv map[string][]*forwardprotocol.EventEntry) {
	acked, onDisk = map[string]bool{}, map[string]bool{}
	deliv = map[string][]*forwardprotocol.EventEntry{}
	for _, m := range r.srv2.msgs {
		for i := range m.Entries {
			st := eventStamp(&m.Entries[i])
			deliv[st] = append(deliv[st], &m.Entries[i])
			if m.AckSent {
				acked[st] = true
			}
		}
	}
	if len(r.stops) > 0 {
		for p, data := range r.stops[len(r.stops)-1].Files2 {
			if !strings.HasSuffix(p, ".ff") {
				continue
			}
			m, derr := decodeChunkFile(data)
			if derr != nil {
				r.note(prop, "altered", "queue-file-undecodable-output2", "queue file %s of the second output does not decode: %v", p, derr)
				continue
			}
			for i := range m.Entries {
				onDisk[eventStamp(&m.Entries[i])] = true
			}
		}
	}
	return
}

// the same obligations for the second output: its own upstream, its own queue root, its own reference
func (r *aRun) oracleC01SecondOutput(v *aView) {
	out := r.out
	ref2, err := newAReference(r.s.configYAML(""))
	if err != nil {
		out.Harness = "reference for output 2: " + err.Error()
		return
	}
	ref2.outIdx = 1
	acked, onDisk, deliv := r.secondOutputState("C01")
	saved := v.ref
	v.ref = ref2
	defer func() { v.ref = saved }()
	missing, first := 0, ""
	for _, sr := range v.full {
		if sr.rec.Raw != "" {
			continue
		}
		st := stampOf(sr)
		out.Obligations++
		out.probe("second_output_records_checked", 1)
		if sr.rec.Drop {
			if len(deliv[st]) > 0 {
				r.note("C01", "filtered-record-delivered", "filtered-record-delivered-output2", "record %s carries the drop marker but was delivered to the second output", st)
			}
			continue
		}
		if !acked[st] && !onDisk[st] && v.dropped == 0 {
			r.note("C01", "lost", "lost-output2", "record %s (client %d) was read by the agent but is neither acknowledged by the second upstream nor in the second output's on-disk queue after the final stop (transmitted %d times)", st, sr.client, len(deliv[st]))
		}
		if !acked[st] {
			missing++
			if first == "" {
				first = st
			}
		}
		for _, e := range deliv[st] {
			if diff := r.checkEvent(v, sr, e); diff != "" {
				r.note("C01", "altered", "altered-output2", "record %s arrived at the second upstream altered: %s", st, diff)
			}
		}
	}
	if r.finalDeadlineHit && missing > 0 && v.dropped == 0 {
		r.note("C01", "liveness", "liveness-output2", "%d records (first %s) were not acknowledged by the second upstream within the bound after it became healthy at %v", missing, first, r.healthyFrom)
	}
	for _, de := range r.srv2.decodeErr {
		r.note("C01", "altered", "output2-undecodable", "the second upstream could not decode a message: %s", de)
	}
}

// every delivered event must be attributable to a sent record (or be the forwarded unfinished last line of a connection)
func (r *aRun) checkNoPhantoms(v *aView, prop string, alt ...*aReference) {
	refs := append([]*aReference{v.ref}, alt...) // (after a successful reload a line may have been processed under the new configuration)
	for st, ds := range v.deliveries {
		r.out.Obligations++
		if v.byStamp[st] != nil {
			continue
		}
		// the forwarded unfinished last line of a connection: exactly what the same bytes give on a fresh pipeline
		exactTail := false
		for _, tail := range v.tailList {
			for _, ref := range refs {
				if t := ref.eval(tail); t.entry != nil && sameEvent(ds[0].entry, t.entry, false) == "" {
					exactTail = true
				}
			}
		}
		if exactTail {
			r.out.probe("partial_tail_forwarded", 1)
			continue
		}
		if sr := v.partialSt[st]; sr != nil {
			// a multi-line record of which only some complete lines were read: the event of exactly those lines
			lines := strings.Split(framedMessage(sr), "\n")
			okPrefix := false
			for k := 1; k < len(lines) && !okPrefix; k++ {
				for _, ref := range refs {
					if t := ref.eval(strings.Join(lines[:k], "\n")); t.entry != nil && sameEvent(ds[0].entry, t.entry, false) == "" {
						okPrefix = true
					}
				}
			}
			if okPrefix {
				r.out.probe("partial_tail_forwarded", 1)
				continue
			}
			got, _ := ds[0].entry.Record["log"].(string)
			want := ""
			if e := v.ref.eval(framedMessage(sr)).entry; e != nil {
				want, _ = e.Record["log"].(string)
			}
			if !strings.HasPrefix(want, got) {
				r.note(prop, "altered", "altered-partial", "partially read record %s arrived as %q which is not a prefix of %q", st, clip(got, 80), clip(want, 80))
			}
			r.out.probe("partial_tail_forwarded", 1)
			continue
		}
		okTail := false
		for _, tail := range v.tailList {
			for _, ref := range refs {
				if t := ref.eval(tail); t.entry != nil && sameEvent(ds[0].entry, t.entry, false) == "" {
					okTail = true
				}
			}
		}
		if okTail {
			r.out.probe("partial_tail_forwarded", 1)
			continue
		}
		if v.allSent[st] != nil {
			r.note(prop, "phantom", "delivered-unread", "record %s was delivered although the agent never read it completely", st)
			continue
		}
		r.note(prop, "phantom", "phantom", "event with stamp %q was delivered but no client ever sent it", clip(st, 60))
	}
}

// ---------------------------------------------------------------------------------------------------------------
// key tuples

// tupleOf returns the values of the orchestration key fields of a record, as the agent sees them
func (r *aRun) tupleOf(sr *aSentRec) []string { return r.s.tupleOfKey(sr.rec.Key) }

// tupleOfKey returns the values of the orchestration key fields of records generated with key index k
func (s *AScenario) tupleOfKey(k int) []string {
	kt := s.KeyTuples[k%len(s.KeyTuples)]
	sev := 6
	fmt.Sscanf(kt[1], "%d", &sev)
	vals := map[string]string{"app": kt[0], "level": aSeverities[sev%8], "pid": kt[2]}
	var out []string
	for _, k := range s.Keys {
		out = append(out, vals[k])
	}
	return out
}

func tupleKey(t []string) string { return fmt.Sprintf("%q", t) }

var tmplPart = regexp.MustCompile(`\$\{(\w+)\[(-?\d*):(-?\d*)\]\}|\$\{(\w+)\}|\$(\w+)`)

// expandTag is an independent implementation of the tag template for the templates the scenarios use
func (r *aRun) expandTag(tuple []string) string { return r.s.expandTag(tuple) }

func (s *AScenario) expandTag(tuple []string) string {
	vals := map[string]string{}
	for i, k := range s.Keys {
		vals[k] = tuple[i]
	}
	return tmplPart.ReplaceAllStringFunc(s.Tag, func(m string) string {
		g := tmplPart.FindStringSubmatch(m)
		switch {
		case g[1] != "":
			val := vals[g[1]]
			lo, hi := 0, len(val)
			if g[2] != "" {
				fmt.Sscanf(g[2], "%d", &lo)
			}
			if g[3] != "" {
				fmt.Sscanf(g[3], "%d", &hi)
			}
			if lo < 0 {
				lo += len(val)
			}
			if hi < 0 {
				hi += len(val)
			}
			lo, hi = max(0, min(lo, len(val))), max(0, min(hi, len(val)))
			if lo > hi {
				return ""
			}
			return val[lo:hi]
		case g[4] != "":
			return vals[g[4]]
		}
		return vals[g[5]]
	})
}

// ---------------------------------------------------------------------------------------------------------------
// C05 arrival order

func (r *aRun) oracleC05(v *aView) {
	out := r.out
	// (a) first deliveries of each stream (connection, key set) appear in arrival order
	type streamKey struct {
		conn  *aConnRec
		tuple string
	}
	connOf := map[*aSentRec]*aConnRec{}
	for _, cs := range r.clients {
		for _, cr := range cs.conns {
			for _, sr := range cr.recs {
				connOf[sr] = cr
			}
		}
	}
	firstSeen := map[string]bool{}
	lastSeq := map[streamKey]*aSentRec{}
	for _, m := range r.srv.msgs {
		for i := range m.Entries {
			st := eventStamp(&m.Entries[i])
			sr := v.byStamp[st]
			if sr == nil || firstSeen[st] {
				continue
			}
			firstSeen[st] = true
			out.Obligations++
			k := streamKey{connOf[sr], tupleKey(r.tupleOf(sr))}
			if prev := lastSeq[k]; prev != nil && prev.seq > sr.seq {
				r.note("C05", "stream-order", "stream-order", "record %s was first delivered after %s although it arrived earlier on the same connection with the same key set %s (message %s on upstream connection %d)",
					st, stampOf(prev), k.tuple, m.ID, m.Conn)
			}
			if prev := lastSeq[k]; prev == nil || prev.seq < sr.seq {
				lastSeq[k] = sr
			}
		}
	}
	// (b) per upstream connection: chunk ids increase; an older chunk of the same pipeline that the upstream has seen but
	// never acknowledged is retransmitted before anything newer
	lastID := map[int]string{}
	onConn := map[int]map[string]bool{}
	type seenChunk struct {
		id       string
		ackSteps []int // steps at which the upstream finished writing an ACK for it
	}
	seenByPipe := map[string]map[string]*seenChunk{}
	pipeOf := func(m *aMsg) string {
		for i := range m.Entries {
			if sr := v.allSent[eventStamp(&m.Entries[i])]; sr != nil {
				return tupleKey(r.tupleOf(sr))
			}
		}
		return ""
	}
	for _, m := range r.srv.msgs {
		if pipe := pipeOf(m); pipe != "" && m.AckSent {
			if seenByPipe[pipe] == nil {
				seenByPipe[pipe] = map[string]*seenChunk{}
			}
			sc := seenByPipe[pipe][m.ID]
			if sc == nil {
				sc = &seenChunk{id: m.ID}
				seenByPipe[pipe][m.ID] = sc
			}
			sc.ackSteps = append(sc.ackSteps, m.AckStep)
		}
	}
	// the two rules below read chunk ids as creation order. That holds while the wall clock does not step back across id
	// generators (a restart creates a new one starting from the clock): in runs with an injected clock step the order of
	// delivery is judged by the record-level rule above only
	for _, ev := range r.s.Events {
		if ev.Kind == "clock_back" {
			out.probe("id_based_order_rules_skipped_after_clock_step", 1)
			return
		}
	}
	arrived := map[string]map[string]int{} // pipeline -> chunk id -> step of first arrival
	for _, m := range r.srv.msgs {
		out.Obligations++
		if prev, ok := lastID[m.Conn]; ok && prev > m.ID {
			r.note("C05", "chunk-order", "chunk-order", "upstream connection %d received chunk %s after %s", m.Conn, m.ID, prev)
		}
		lastID[m.Conn] = m.ID
		if onConn[m.Conn] == nil {
			onConn[m.Conn] = map[string]bool{}
		}
		onConn[m.Conn][m.ID] = true
		pipe := pipeOf(m)
		if pipe == "" {
			continue
		}
		if arrived[pipe] == nil {
			arrived[pipe] = map[string]int{}
		}
		for id, step := range arrived[pipe] {
			if !(id < m.ID) || step >= m.Step || onConn[m.Conn][id] {
				continue
			}
			ackedBefore := false
			if sc := seenByPipe[pipe][id]; sc != nil {
				for _, as := range sc.ackSteps {
					if as < m.Step {
						ackedBefore = true
					}
				}
			}
			if !ackedBefore {
				r.note("C05", "skipped-older-chunk", "skipped-older-chunk", "pipeline %s: chunk %s was transmitted on upstream connection %d although the older chunk %s, seen by the upstream before and not acknowledged, had not been retransmitted on that connection", pipe, m.ID, m.Conn, id)
			}
		}
		if _, ok := arrived[pipe][m.ID]; !ok {
			arrived[pipe][m.ID] = m.Step
		}
	}
}

// ---------------------------------------------------------------------------------------------------------------
// C06 routing by own key fields

func (r *aRun) oracleC06(v *aView) {
	out := r.out
	check := func(where string, tag string, entries []forwardprotocol.EventEntry) (tuple string) {
		for i := range entries {
			sr := v.allSent[eventStamp(&entries[i])]
			if sr == nil {
				continue
			}
			out.Obligations++
			t := r.tupleOf(sr)
			tk := tupleKey(t)
			if want := r.expandTag(t); tag != want {
				r.note("C06", "wrong-tag", "wrong-tag", "%s: record %s with key fields %s was delivered under tag %q, its own key fields give %q", where, stampOf(sr), tk, tag, want)
			}
			if tuple == "" {
				tuple = tk
			} else if tuple != tk {
				r.note("C06", "merged-key-sets", "merged-key-sets", "%s: records with different key fields share one chunk: %s and %s", where, tuple, tk)
			}
		}
		return
	}
	for _, m := range r.srv.msgs {
		check(fmt.Sprintf("chunk %s on upstream connection %d", m.ID, m.Conn), m.Tag, m.Entries)
	}
	// queue directories <-> key tuples is a bijection, judged from chunk contents
	dirTuple := map[string]string{}
	tupleDir := map[string]string{}
	for _, st := range r.stops {
		for p, data := range st.Files {
			if !strings.HasSuffix(p, ".ff") {
				continue
			}
			m, err := decodeChunkFile(data)
			if err != nil {
				continue
			}
			dir := filepath.Dir(p)
			t := check("queue file "+p, m.Tag, m.Entries)
			if t == "" {
				continue
			}
			out.Obligations++
			if prev, ok := dirTuple[dir]; ok && prev != t {
				r.note("C06", "shared-queue-dir", "shared-queue-dir", "queue directory %s holds chunks of two key sets: %s and %s", dir, prev, t)
			}
			dirTuple[dir] = t
			if prev, ok := tupleDir[t]; ok && prev != dir {
				r.note("C06", "split-queue-dir", "split-queue-dir", "key set %s is spread over two queue directories: %s and %s", t, prev, dir)
			}
			tupleDir[t] = dir
		}
	}
	// chunks found at start-up are reattached and delivered without new traffic for their key set: every queue file the last
	// generation found when it started must have been transmitted again during that generation's healthy phase
	if !r.s.FinalStop && !r.finalDeadlineHit && len(r.stops) > 1 {
		prev := r.stops[len(r.stops)-2]
		restartAt := prev.At + prev.Took
		for p, data := range prev.Files {
			if !strings.HasSuffix(p, ".ff") {
				continue
			}
			m, err := decodeChunkFile(data)
			if err != nil {
				continue
			}
			out.Obligations++
			again := false
			for _, sm := range r.srv.msgs {
				if sm.ID == m.Option.Chunk && sm.Tag == m.Tag && sm.T >= restartAt {
					again = true
				}
			}
			if !again {
				r.note("C06", "queue-not-reattached", "queue-not-reattached", "queue file %s was on disk when the last generation started but was never transmitted by it although the upstream was healthy: its queue was not reattached to a pipeline at start-up", p)
				break
			}
		}
	}
	if r.finalDeadlineHit {
		r.note("C06", "queue-not-reattached", "not-delivered", "records were not delivered within the bound although the upstream was healthy (a queue that is not reattached at start-up is one way to get here)")
	}
	// key_* metric label sets are in bijection with the tuples seen
	seenTuples := map[string]bool{}
	for _, sr := range v.full {
		if sr.rec.Raw == "" {
			seenTuples[tupleKey(r.tupleOf(sr))] = true
		}
	}
	if len(r.stops) > 0 {
		labelSets := map[string]bool{}
		re := regexp.MustCompile(`key_(\w+)="((?:[^"\\]|\\.)*)"`)
		for k := range r.stops[len(r.stops)-1].Metrics {
			if !strings.HasPrefix(k, "sim_process_chunks_total") {
				continue
			}
			vals := map[string]string{}
			for _, g := range re.FindAllStringSubmatch(k, -1) {
				vals[g[1]] = g[2]
			}
			var t []string
			for _, kn := range r.s.Keys {
				t = append(t, vals[kn])
			}
			labelSets[strings.Join(t, "\x1f")] = true
		}
		out.probe("pipelines_in_metrics", len(labelSets))
		_ = seenTuples
	}
	r.checkNoPhantoms(v, "C06")
}

// ---------------------------------------------------------------------------------------------------------------
// C07 hostile input

func (r *aRun) oracleC07(v *aView) {
	out := r.out
	// sentinels: the well-formed records around the bad input are delivered; what the framer attaches to them is exactly the
	// non-start lines that follow them in the stream (C08), nothing else
	for _, cs := range r.clients {
		for _, cr := range cs.conns {
			n := min(cr.agentRead, len(cr.sent))
			stream := string(cr.sent[:n])
			_, recs := referenceFrame(stream)
			expect := map[string]refRecord{}
			for _, rr := range recs {
				i := strings.LastIndexByte(rr.head, ' ')
				_ = i
				expect[rr.head] = rr
			}
			for _, sr := range cr.recs {
				if sr.rec.Raw != "" || sr.rec.Drop || sr.end > cr.agentRead {
					continue
				}
				st := stampOf(sr)
				head := strings.TrimSuffix(sr.line, "\n")
				rr, ok := expect[head]
				if !ok {
					continue // the bytes before it did not end with a newline: it is not a record of its own in this stream
				}
				out.Obligations++
				// one documented, test-pinned behaviour gets its own identity: when a line fills the line buffer, the overflow
				// handling emits whatever unfinished record sits at the end of the buffer, so a record that follows an oversize
				// line in the same buffer fill is cut
				sig := "sentinel-lost"
				sigC := "sentinel-corrupted"
				if longLineBefore(stream, sr.start, defs.ListenerLineBufferSize-defs.InputLogMaxRecordBytes-len(sr.line)) {
					sig, sigC = "after-line-buffer-overflow", "after-line-buffer-overflow"
				}
				if !v.acked[st] && !v.onDisk[st] {
					r.note("C07", "sentinel-lost", sig, "well-formed record %s was read by the agent next to hostile input but never delivered nor queued", st)
					continue
				}
				for _, d := range v.deliveries[st] {
					matched := false
					for k := len(rr.conts); k >= 0 && !matched; k-- {
						msg := head
						if k > 0 {
							msg += "\n" + strings.Join(rr.conts[:k], "\n")
						}
						if e := v.ref.eval(msg).entry; e != nil && sameEvent(d.entry, e, true) == "" {
							matched = true
						}
					}
					if tail := v.tails[sr]; !matched && tail != "" {
						if e := v.ref.eval(head + "\n" + tail).entry; e != nil && sameEvent(d.entry, e, true) == "" {
							matched = true
						}
					}
					if !matched {
						r.note("C07", "sentinel-corrupted", sigC, "well-formed record %s was delivered altered next to hostile input: %s", st, sameEvent(d.entry, v.ref.eval(head).entry, true))
					}
				}
			}
		}
	}
	if r.gaveUpConnecting {
		r.note("C07", "not-accepting", "not-accepting", "a client could not connect to the syslog port for 100 simulated seconds although the agent was running: the listener no longer accepts")
	}
	if r.finalDeadlineHit {
		r.note("C07", "wedged", "wedged", "the records of a new, clean connection were not delivered within the bound after the hostile phase: the agent is wedged")
	}
	// accounting: input passed + dropped == framed messages handed to the parser is decided in C19's profile; here only "rejected and counted"
	if len(r.stops) > 0 {
		m := r.stops[len(r.stops)-1].Metrics
		out.probe("input_dropped_records", int(m[`sim_input_dropped_records_total{protocol="syslog"}`]))
	}
}

// ---------------------------------------------------------------------------------------------------------------
// C11 chunks are complete, ordered, self-describing

func (r *aRun) oracleC11(v *aView) {
	out := r.out
	s := r.s
	type chunkKey struct{ pipe, id string }
	content := map[chunkKey]string{}
	inChunk := map[string]chunkKey{} // stamp -> the chunk that carries it
	checkMsg := func(where, tag, id string, size int, comp string, entries []forwardprotocol.EventEntry) {
		out.Obligations++
		if size != len(entries) {
			r.note("C11", "size-mismatch", "size-mismatch", "%s: option size=%d but the chunk carries %d events", where, size, len(entries))
		}
		if (s.Mode == "CompressedPackedForward") != (comp == "gzip") {
			r.note("C11", "mode-mismatch", "mode-mismatch", "%s: compressed option %q does not fit message mode %s", where, comp, s.Mode)
		}
		if len(entries) == 0 {
			r.note("C11", "empty-chunk", "empty-chunk", "%s: chunk without events", where)
			return
		}
		pipe := ""
		var stamps []string
		total := 0
		lastSeq := map[string]int{} // per connection
		for i := range entries {
			st := eventStamp(&entries[i])
			stamps = append(stamps, st)
			sr := v.allSent[st]
			if sr == nil {
				continue
			}
			t := tupleKey(r.tupleOf(sr))
			if pipe == "" {
				pipe = t
			}
			if want := r.expandTag(r.tupleOf(sr)); tag != want {
				r.note("C11", "wrong-tag", "wrong-tag", "%s: tag %q, the pipeline's tag is %q", where, tag, want)
			}
			// the serialized size is known for events that equal the reference of their record (a forwarded unfinished line is shorter)
			if e := v.ref.eval(framedMessage(sr)); e.entry != nil && v.byStamp[st] != nil && sameEvent(&entries[i], e.entry, false) == "" {
				total += e.size
			}
			ck := fmt.Sprint(sr.client)
			if prev, ok := lastSeq[ck]; ok && prev > sr.seq {
				r.note("C11", "reordered-in-chunk", "reordered-in-chunk", "%s: record %s comes after c%d.n%d inside the chunk", where, st, sr.client, prev)
			}
			lastSeq[ck] = sr.seq
		}
		if pipe == "" {
			return
		}
		k := chunkKey{pipe, id}
		sig := strings.Join(stamps, ",")
		if prev, ok := content[k]; ok && prev != sig {
			r.note("C11", "id-reused", "id-reused", "pipeline %s: chunk id %s names two different chunks: [%s] and [%s]", pipe, id, clip(prev, 80), clip(sig, 80))
		}
		content[k] = sig
		for _, st := range stamps {
			if prev, ok := inChunk[st]; ok && prev != k {
				r.note("C11", "record-in-two-chunks", "record-in-two-chunks", "record %s is carried by two different chunks: %s and %s", st, prev.id, id)
			}
			inChunk[st] = k
		}
		if len(entries) > 1 {
			if s.ChunkMaxRecs > 0 && len(entries) > s.ChunkMaxRecs {
				r.note("C11", "record-limit", "record-limit", "%s: %d events, limit is %d", where, len(entries), s.ChunkMaxRecs)
			}
			if s.ChunkMaxBytes > 0 && total > s.ChunkMaxBytes {
				r.note("C11", "size-limit", "size-limit", "%s: %d bytes of serialized events, limit is %d", where, total, s.ChunkMaxBytes)
			}
		}
	}
	for _, m := range r.srv.msgs {
		checkMsg(fmt.Sprintf("chunk %s on upstream connection %d", m.ID, m.Conn), m.Tag, m.ID, m.Size, m.Comp, m.Entries)
	}
	for _, st := range r.stops {
		for p, data := range st.Files {
			if !strings.HasSuffix(p, ".ff") {
				continue
			}
			m, err := decodeChunkFile(data)
			if err != nil {
				r.note("C11", "queue-file-undecodable", "queue-file-undecodable", "queue file %s does not decode as a Forward message: %v", p, err)
				continue
			}
			if filepath.Base(p) != m.Option.Chunk {
				r.note("C11", "storage-name", "storage-name", "queue file %s carries chunk id %s", p, m.Option.Chunk)
			}
			checkMsg("queue file "+p, m.Tag, m.Option.Chunk, m.Option.Size, m.Option.Compressed, m.Entries)
		}
	}
	// the chunks of a pipeline in id order reproduce each stream exactly once, in order
	type sk struct {
		pipe   string
		client int
	}
	byStream := map[sk][]*aSentRec{}
	for st, k := range inChunk {
		if sr := v.allSent[st]; sr != nil {
			byStream[sk{k.pipe, sr.client}] = append(byStream[sk{k.pipe, sr.client}], sr)
		}
	}
	for k, list := range byStream {
		sort.Slice(list, func(i, j int) bool {
			a, b := inChunk[stampOf(list[i])], inChunk[stampOf(list[j])]
			if a.id != b.id {
				return a.id < b.id
			}
			return list[i].seq < list[j].seq
		})
		for i := 1; i < len(list); i++ {
			out.Obligations++
			if list[i-1].seq > list[i].seq {
				r.note("C11", "reordered-across-chunks", "reordered-across-chunks", "pipeline %s: record %s is in an earlier chunk (%s) than %s (%s)", k.pipe,
					stampOf(list[i-1]), inChunk[stampOf(list[i-1])].id, stampOf(list[i]), inChunk[stampOf(list[i])].id)
			}
		}
	}
	// nothing lost at chunk boundaries or flushes: every fully read, unfiltered record is in some chunk that left the pipeline
	for _, sr := range v.full {
		if sr.rec.Raw != "" || sr.rec.Drop {
			continue
		}
		out.Obligations++
		if _, ok := inChunk[stampOf(sr)]; !ok && v.dropped == 0 {
			r.note("C11", "record-in-no-chunk", "record-in-no-chunk", "record %s was read by the agent but is in no chunk that reached the upstream or the queue", stampOf(sr))
		}
	}
}

// ---------------------------------------------------------------------------------------------------------------
// C12 isolation despite pooling

func (r *aRun) oracleC12(v *aView) {
	// after a successful reload a record may have been processed under the new configuration: then it equals what a fresh
	// pipeline of THAT configuration gives
	var refNew *aReference
	if r.s.Reloader && strings.Contains(r.logbuf.String(), "reloaded config") {
		var err error
		if refNew, err = newAReference(r.s.configYAML("valid2")); err != nil {
			r.out.Harness = "reference config v2: " + err.Error()
			return
		}
		r.out.probe("c12_runs_with_a_successful_reload", 1)
	}
	for _, sr := range v.full {
		if sr.rec.Raw != "" || sr.rec.Drop {
			continue
		}
		st := stampOf(sr)
		for _, d := range v.deliveries[st] {
			r.out.Obligations++
			diff := r.checkEvent(v, sr, d.entry)
			if diff != "" && refNew != nil {
				saved := v.ref
				v.ref = refNew
				diff = r.checkEvent(v, sr, d.entry)
				v.ref = saved
			}
			if diff != "" {
				r.note("C12", "not-isolated", "not-isolated", "the event of record %s differs from what the same record gives on a fresh pipeline: %s", st, diff)
			}
		}
	}
	for _, sr := range v.full {
		if sr.rec.Drop && len(v.deliveries[stampOf(sr)]) > 0 {
			r.note("C12", "not-isolated", "filtered-record-delivered", "record %s carries the drop marker but was delivered", stampOf(sr))
		}
	}
	if refNew != nil {
		r.checkNoPhantoms(v, "C12", refNew)
	} else {
		r.checkNoPhantoms(v, "C12")
	}
	if r.srv2 != nil {
		// the second output serializes the same record structs after (or before) the first one: same rule, its own reference
		ref2, err := newAReference(r.s.configYAML(""))
		if err != nil {
			r.out.Harness = "reference for output 2: " + err.Error()
			return
		}
		ref2.outIdx = 1
		saved := v.ref
		v.ref = ref2
		for _, m := range r.srv2.msgs {
			for i := range m.Entries {
				e := &m.Entries[i]
				st := eventStamp(e)
				sr := v.byStamp[st]
				if sr == nil || sr.rec.Raw != "" {
					continue
				}
				r.out.Obligations++
				r.out.probe("second_output_events_checked", 1)
				if sr.rec.Drop {
					r.note("C12", "not-isolated", "filtered-record-delivered", "record %s carries the drop marker but was delivered to the second output", st)
					continue
				}
				diff := r.checkEvent(v, sr, e)
				if diff != "" && refNew != nil {
					if refNew2, err := newAReference(r.s.configYAML("valid2")); err == nil {
						refNew2.outIdx = 1
						v.ref = refNew2
						diff = r.checkEvent(v, sr, e)
						v.ref = ref2
					}
				}
				if diff != "" {
					r.note("C12", "not-isolated", "not-isolated-output2", "the event of record %s on the second output differs from what the same record gives on a fresh pipeline: %s", st, diff)
				}
			}
		}
		v.ref = saved
		for _, de := range r.srv2.decodeErr {
			r.note("C12", "not-isolated", "output2-undecodable", "the second upstream could not decode a message: %s", de)
		}
	}
}

// ---------------------------------------------------------------------------------------------------------------
// C17 end to end: reloads with valid / invalid / incompatible configuration files

func (r *aRun) oracleC17(v *aView) {
	out := r.out
	ref2, err := newAReference(r.s.configYAML("valid2"))
	if err != nil {
		out.Harness = "reference config v2: " + err.Error()
		return
	}
	okN := strings.Count(r.logbuf.String(), "reloaded config")
	failN := strings.Count(r.logbuf.String(), "failed to reload")
	wantOK, wantFail, either := 0, 0, 0
	for _, k := range r.reloads {
		switch k {
		case "valid2":
			wantOK++
		case "addoutput":
			either++ // the property does not say whether a changed number of outputs is compatible: rejected or working, both are fine
		default:
			wantFail++
		}
	}
	out.Obligations++
	// a SIGHUP that arrives while a reload is in progress may be coalesced (channel of one): never more effects than signals
	if okN > wantOK+either || failN > wantFail+either {
		r.note("C17", "reload-outcome", "reload-outcome", "%d reloads succeeded and %d failed, but only %d valid and %d invalid/incompatible configurations were signalled", okN, failN, wantOK, wantFail)
	}
	if wantOK == 0 && okN == 0 {
		// only rejected reloads: the agent must still be on the old configuration
		for st, ds := range v.deliveries {
			if sr := v.byStamp[st]; sr != nil && sr.rec.Raw == "" {
				for _, d := range ds {
					if _, has := d.entry.Record["extra2"]; has {
						r.note("C17", "rejected-config-applied", "rejected-config-applied", "record %s was processed with the rejected configuration", st)
					}
				}
			}
		}
	}
	for _, sr := range v.full {
		if sr.rec.Raw != "" || sr.rec.Drop {
			continue
		}
		st := stampOf(sr)
		out.Obligations++
		if !v.acked[st] && !v.onDisk[st] {
			r.note("C17", "lost-over-reload", "lost-over-reload", "record %s was read by the agent but is neither acknowledged nor queued after %d successful and %d rejected reloads", st, okN, failN)
		}
		for _, d := range v.deliveries[st] {
			if r.checkEvent(v, sr, d.entry) == "" {
				continue
			}
			// processed by the new pipelines after a successful reload
			saved := v.ref
			v.ref = ref2
			diff := r.checkEvent(v, sr, d.entry)
			v.ref = saved
			if diff != "" || okN == 0 {
				r.note("C17", "altered-over-reload", "altered-over-reload", "record %s matches neither the old nor the new configuration: %s", st, diff)
			}
		}
	}
	if r.finalDeadlineHit {
		if r.allDeliveredTo(r.srv) && r.srv2 != nil {
			r.note("C17", "lost-over-reload", "not-delivered-output2", "records were not delivered to the second upstream within the bound after the reloads although it was healthy (queued chunks of the second output not taken over?)")
		} else {
			r.note("C17", "lost-over-reload", "not-delivered", "records were not delivered within the bound after the reloads although the upstream was healthy (queued chunks of the old pipelines not taken over?)")
		}
	}
	if r.srv2 != nil {
		acked2, onDisk2, _ := r.secondOutputState("C17")
		for _, sr := range v.full {
			if sr.rec.Raw != "" || sr.rec.Drop {
				continue
			}
			st := stampOf(sr)
			out.Obligations++
			if !acked2[st] && !onDisk2[st] {
				r.note("C17", "lost-over-reload", "lost-over-reload-output2", "record %s was read by the agent but is neither acknowledged by the second upstream nor in the second output's queue after %d successful and %d rejected reloads", st, okN, failN)
			}
		}
	}
	if okN > 0 {
		r.checkNoPhantoms(v, "C17", ref2)
	} else {
		r.checkNoPhantoms(v, "C17")
	}
}

// ---------------------------------------------------------------------------------------------------------------
// C18 bounded shutdown

// c18Bound() is the longest a stop may take: the listener's forced stop, then the buffer's shutdown timeout plus the hand-off timeouts around it.
func c18Bound() time.Duration {
	return 2*defs.IntermediateChannelTimeout + time.Duration(c18Outputs)*(defs.BufferShutDownTimeout+2*defs.IntermediateChannelTimeout) + time.Second
}

// c18Outputs is the number of configured outputs of the current run (their buffers are shut down one after the other)
var c18Outputs = 1

func (r *aRun) oracleC18(v *aView) {
	out := r.out
	bound := c18Bound()
	for _, st := range r.stops {
		out.Obligations++
		if st.Took > bound {
			r.note("C18", "stop-bound", "stop-bound", "generation %d took %v to shut down, the bound from its configured timeouts is %v", st.Gen, st.Took, bound)
		}
		if st.BugLines > 0 {
			r.note("C18", "stop-timeout-logged", "stop-timeout-logged", "generation %d logged %d 'BUG:' lines during shutdown (a component could not be stopped in time)", st.Gen, st.BugLines)
		}
	}
	// nothing only in memory: after the last stop everything read is acknowledged, on disk or counted as dropped
	for _, sr := range v.full {
		if sr.rec.Raw != "" || sr.rec.Drop {
			continue
		}
		out.Obligations++
		st := stampOf(sr)
		if !v.acked[st] && !v.onDisk[st] && v.dropped == 0 {
			r.note("C18", "memory-only-at-exit", "memory-only-at-exit", "record %s was neither acknowledged nor on disk when the agent exited", st)
		}
	}
	if r.srv2 != nil {
		acked2, onDisk2, _ := r.secondOutputState("C18")
		for _, sr := range v.full {
			if sr.rec.Raw != "" || sr.rec.Drop {
				continue
			}
			out.Obligations++
			st := stampOf(sr)
			if !acked2[st] && !onDisk2[st] && v.dropped == 0 {
				r.note("C18", "memory-only-at-exit", "memory-only-at-exit-output2", "record %s was neither acknowledged by the second upstream nor in the second output's queue when the agent exited", st)
			}
		}
	}
}

// ---------------------------------------------------------------------------------------------------------------
// C19 metrics balance

func sumMetric(m map[string]float64, prefix string, mustContain ...string) float64 {
	t := 0.0
	for k, v := range m {
		if !strings.HasPrefix(k, prefix+"{") && k != prefix {
			continue
		}
		ok := true
		for _, c := range mustContain {
			if !strings.Contains(k, c) {
				ok = false
			}
		}
		if ok {
			t += v
		}
	}
	return t
}

// keyLabelsOf extracts the key_* labels of a metric line in canonical (name-sorted) form
func keyLabelsOf(metric string) string {
	i, j := strings.IndexByte(metric, '{'), strings.LastIndexByte(metric, '}')
	if i < 0 || j < i {
		return ""
	}
	var keep []string
	for _, kv := range splitLabels(metric[i+1 : j]) {
		if strings.HasPrefix(kv, "key_") {
			keep = append(keep, kv)
		}
	}
	sort.Strings(keep)
	return strings.Join(keep, ",")
}

// splitLabels splits name="value" pairs at the commas outside quotes
func splitLabels(s string) []string {
	var out []string
	inQ, esc, start := false, false, 0
	for i := 0; i < len(s); i++ {
		switch {
		case esc:
			esc = false
		case s[i] == '\\':
			esc = true
		case s[i] == '"':
			inQ = !inQ
		case s[i] == ',' && !inQ:
			out = append(out, s[start:i])
			start = i + 1
		}
	}
	if start < len(s) {
		out = append(out, s[start:])
	}
	return out
}

// metricLabelsOf gives the key_* labels the pipeline counters of a generated record must carry (orchestration keys + metric key)
func (s *AScenario) metricLabelsOf(sr *aSentRec) string {
	kt := s.KeyTuples[sr.rec.Key%len(s.KeyTuples)]
	sev := 6
	fmt.Sscanf(kt[1], "%d", &sev)
	level := []string{"off", "fatal", "crit", "error", "warn", "notice", "info", "debug"}[sev%8]
	vals := map[string]string{"app": kt[0], "level": level, "pid": kt[2], "host": []string{"h1", "h2"}[(sr.client+sr.seq)%2], "source": "-"}
	if sr.rec.Drop {
		vals["source"] = "dropme"
	} else if sr.rec.MK > 0 {
		vals["host"], vals["source"] = mkHostSource(sr.rec.MK)
	}
	mk := s.MetricKeys
	if len(mk) == 0 {
		mk = []string{"host"}
	}
	names := append(append([]string{}, mk...), s.Keys...)
	var keep []string
	for _, n := range names {
		keep = append(keep, fmt.Sprintf("key_%s=%q", n, vals[n]))
	}
	sort.Strings(keep)
	return strings.Join(keep, ",")
}

func (r *aRun) oracleC19(v *aView) {
	out := r.out
	// per generation: what the agent read in that generation
	for gi, st := range r.stops {
		m := st.Metrics
		gen := st.Gen
		framed, markerSent, wellFormed := 0, 0, 0
		unfinished := 0
		for _, cs := range r.clients {
			for _, cr := range cs.conns {
				if cr.gen != gen {
					continue
				}
				n := min(cr.agentRead, len(cr.sent))
				lead, recs := referenceFrame(string(cr.sent[:n]))
				_ = lead
				framed += len(recs)
				if n > 0 && cr.sent[n-1] != '\n' {
					unfinished++
				}
				for _, sr := range cr.recs {
					if sr.end <= cr.agentRead && sr.rec.Raw == "" {
						wellFormed++
						if sr.rec.Drop {
							markerSent++
						}
					}
				}
			}
		}
		// E5: per key set, the pipeline counters carry the key values of the records that caused them
		wantByLabels := map[string]int{}
		for _, cs := range r.clients {
			for _, cr := range cs.conns {
				if cr.gen != gen {
					continue
				}
				for _, sr := range cr.recs {
					if sr.end <= cr.agentRead && sr.rec.Raw == "" {
						wantByLabels[r.s.metricLabelsOf(sr)]++
					}
				}
			}
		}
		gotByLabels := map[string]float64{}
		markerByLabels := map[string]float64{}
		for k, val := range m {
			if strings.HasPrefix(k, "sim_process_passed_records_total{") || strings.HasPrefix(k, "sim_process_dropped_records_total{") {
				gotByLabels[keyLabelsOf(k)] += val
			}
			if strings.HasPrefix(k, "sim_process_labelled_records_total{") && strings.Contains(k, `label="marker"`) {
				markerByLabels[keyLabelsOf(k)] += val
			}
		}
		// E6: the counter of the drop filter is attributed to the key values of the records it dropped
		wantMarker := map[string]int{}
		for _, cs := range r.clients {
			for _, cr := range cs.conns {
				if cr.gen != gen {
					continue
				}
				for _, sr := range cr.recs {
					if sr.end <= cr.agentRead && sr.rec.Raw == "" && sr.rec.Drop {
						wantMarker[r.s.metricLabelsOf(sr)]++
					}
				}
			}
		}
		for lb, got := range markerByLabels {
			out.Obligations++
			if want := wantMarker[lb]; int(got) < want || int(got) > want+framed+unfinished-wellFormed {
				r.note("C19", "E6-labelled-attribution", "E6-labelled-attribution", "generation %d: labelled{marker} under {%s} is %v, the agent read %d records with the marker and these key values", gen, lb, got, want)
			}
		}
		for lb, want := range wantMarker {
			if _, ok := markerByLabels[lb]; !ok && want > 0 {
				r.note("C19", "E6-labelled-attribution", "E6-labelled-missing", "generation %d: no labelled{marker} counter under {%s}, the agent read %d records with the marker and these key values", gen, lb, want)
			}
		}
		slack := framed + unfinished - wellFormed
		for lb, want := range wantByLabels {
			out.Obligations++
			if got := int(gotByLabels[lb]); got < want || got > want+slack {
				r.note("C19", "E5-label-attribution", "E5-label-attribution", "generation %d: pipeline passed+dropped under {%s} is %d, the agent read %d such records (and at most %d unattributable lines)", gen, lb, got, want, slack)
			}
		}
		stray := 0
		for lb, got := range gotByLabels {
			if _, ok := wantByLabels[lb]; !ok {
				stray += int(got)
			}
		}
		if stray > slack {
			r.note("C19", "E5-label-attribution", "E5-stray-labels", "generation %d: %d records are counted under key values no fully read record has (at most %d unattributable lines were read)", gen, stray, slack)
		}
		inPassed := sumMetric(m, "sim_input_passed_records_total")
		inDropped := sumMetric(m, "sim_input_dropped_records_total")
		procPassed := sumMetric(m, "sim_process_passed_records_total")
		procDropped := sumMetric(m, "sim_process_dropped_records_total")
		marker := sumMetric(m, "sim_process_labelled_records_total", `label="marker"`)
		out.Obligations += 4
		// E1: every message handed to the parser is counted once (an unfinished last line may add one message per connection)
		if got := int(inPassed + inDropped); got < wellFormed || got > framed+unfinished {
			r.note("C19", "E1-input-count", "E1-input-count", "generation %d: input passed+dropped = %d, the agent framed between %d and %d messages from what it read", gen, got, wellFormed, framed+unfinished)
		}
		// E2: pipeline passed + dropped == input passed; marker-dropped == records sent with the marker
		if procPassed+procDropped != inPassed {
			r.note("C19", "E2-pipeline-count", "E2-pipeline-count", "generation %d: pipeline passed %v + dropped %v != input passed %v", gen, procPassed, procDropped, inPassed)
		}
		if int(marker) < markerSent || int(marker) > markerSent+unfinished || procDropped != marker {
			r.note("C19", "E2-marker-count", "E2-marker-count", "generation %d: labelled{marker}=%v, pipeline dropped=%v, records with the marker read=%d", gen, marker, procDropped, markerSent)
		}
		// E3: chunks created + recovered == buffer input == consumed + leftover + dropped + pending; files == leftover + pending
		created := sumMetric(m, "sim_process_chunks_total")
		bufIn := sumMetric(m, "sim_process_buffer_input_chunks_total")
		consumed := sumMetric(m, "sim_process_buffer_consumed_chunks_total")
		leftover := sumMetric(m, "sim_process_buffer_leftover_chunks_total")
		dropped := sumMetric(m, "sim_process_buffer_dropped_chunks_total")
		pending := sumMetric(m, "sim_process_buffer_pending_chunks")
		recovered := 0
		if gi > 0 {
			for p := range r.stops[gi-1].Files {
				if strings.HasSuffix(p, ".ff") {
					recovered++
				}
			}
		}
		files := 0
		for p := range st.Files {
			if strings.HasSuffix(p, ".ff") {
				files++
			}
		}
		out.Obligations += 3
		if bufIn != created+float64(recovered) {
			r.note("C19", "E3-buffer-input", "E3-buffer-input", "generation %d: buffer input_chunks_total=%v, chunks created=%v + recovered from disk=%d", gen, bufIn, created, recovered)
		}
		if bufIn != consumed+leftover+dropped+pending {
			r.note("C19", "E3-buffer-balance", "E3-buffer-balance", "generation %d: buffer input=%v != consumed %v + leftover %v + dropped %v + pending %v", gen, bufIn, consumed, leftover, dropped, pending)
		}
		// files at stop = chunks that entered the buffer and were neither consumed nor dropped (dropping an unloaded chunk leaves its file)
		if dropped == 0 && float64(files) != bufIn-consumed {
			r.note("C19", "E3-files", "E3-files", "generation %d: %d chunk files on disk after stop, buffer input %v - consumed %v = %v (leftover %v, pending %v)", gen, files, bufIn, consumed, bufIn-consumed, leftover, pending)
		}
		// E4: client and buffer agree; forwarded/acknowledged match what the upstream saw
		acked := sumMetric(m, "sim_process_output_acknowledged_chunks_total")
		forwarded := sumMetric(m, "sim_process_output_forwarded_chunks_total")
		attempts := sumMetric(m, "sim_process_output_forward_attempts_total")
		srvAcks, srvMsgs := 0, 0
		var t0, t1 time.Duration
		if gi > 0 {
			t0 = r.stops[gi-1].At
		}
		t1 = st.At + st.Took
		for _, sm := range r.srv.msgs {
			if sm.T >= t0 && sm.T <= t1 {
				srvMsgs++
				if sm.AckSent {
					srvAcks++
				}
			}
		}
		out.Obligations += 3
		if acked != consumed {
			r.note("C19", "E4-ack-vs-consumed", "E4-ack-vs-consumed", "generation %d: output acknowledged_chunks_total=%v, buffer consumed_chunks_total=%v", gen, acked, consumed)
		}
		if int(acked) > srvAcks {
			r.note("C19", "E4-ack-vs-upstream", "E4-ack-vs-upstream", "generation %d: acknowledged_chunks_total=%v but the upstream wrote only %d ACKs in that generation", gen, acked, srvAcks)
		}
		if forwarded < acked || attempts < forwarded {
			r.note("C19", "E4-forward-order", "E4-forward-order", "generation %d: attempts %v >= forwarded %v >= acknowledged %v does not hold", gen, attempts, forwarded, acked)
		}
		_ = srvMsgs // forwarded counts chunks queued for acknowledgement: a chunk can be completely received upstream without it (stop between send and queueing) and counted without being received (reset in flight), so only the inequalities above are determined by observable events
	}
}

// longLineBefore reports whether the stream has a line of at least n bytes that ends within one line buffer before off
func longLineBefore(stream string, off int, n int) bool {
	from := max(0, off-2*defs.ListenerLineBufferSize)
	run := 0
	for i := from; i < off && i < len(stream); i++ {
		if stream[i] == '\n' {
			run = 0
			continue
		}
		run++
		if run >= n {
			return true
		}
	}
	return false
}

// ---------------------------------------------------------------------------------------------------------------
// C11, Datadog format: every chunk the Datadog chunk maker produced is in its queue root after the last stop (its
// consumer never takes one)

const (
	ddMaxBytes   = 5 * 1024 * 1024 // Datadog's documented limits for one request (uncompressed size, number of entries)
	ddMaxRecords = 1000
)

func (r *aRun) oracleC11Datadog(v *aView) {
	out := r.out
	if len(r.stops) == 0 {
		return
	}
	ref, err := newAReference(r.s.configYAML(""))
	if err != nil {
		out.Harness = "reference for the Datadog output: " + err.Error()
		return
	}
	ref.rawOnly = true
	for i, p := range ref.conf.OutputBuffersPairs {
		if p.Name == "dd" {
			ref.outIdx = i
		}
	}
	files := r.stops[len(r.stops)-1].FilesDD
	byDir := map[string][]string{}
	for p := range files {
		if strings.HasSuffix(p, "/.id") {
			continue
		}
		d := p[:strings.LastIndexByte(p, '/')]
		byDir[d] = append(byDir[d], p)
	}
	seen := map[string]int{}
	for d, ps := range byDir {
		sort.Strings(ps) // chunk ids are time+sequence: name order is emission order
		lastSeq := map[string]int{}
		for _, p := range ps {
			out.Obligations++
			out.probe("datadog_chunks_checked", 1)
			name := p[strings.LastIndexByte(p, '/')+1:]
			if !strings.HasSuffix(name, ".dd") {
				r.note("C11", "dd-chunk-name", "dd-chunk-name", "file %s in the Datadog queue does not carry the output's chunk id suffix", p)
				continue
			}
			zr, err := gzip.NewReader(bytes.NewReader(files[p]))
			if err != nil {
				r.note("C11", "dd-malformed", "dd-malformed", "Datadog chunk %s is not gzip: %v", name, err)
				continue
			}
			plain, err := io.ReadAll(zr)
			if err != nil {
				r.note("C11", "dd-malformed", "dd-malformed", "Datadog chunk %s does not decompress: %v", name, err)
				continue
			}
			var elems []json.RawMessage
			if err := json.Unmarshal(plain, &elems); err != nil {
				r.note("C11", "dd-malformed", "dd-malformed", "Datadog chunk %s is not a JSON array: %v (%q...)", name, err, clip(string(plain), 60))
				continue
			}
			if len(elems) == 0 {
				r.note("C11", "dd-empty", "dd-empty", "Datadog chunk %s holds no record", name)
			}
			if len(elems) > ddMaxRecords {
				r.note("C11", "dd-record-limit", "dd-record-limit", "Datadog chunk %s holds %d records, the limit is %d", name, len(elems), ddMaxRecords)
			}
			if len(plain) > ddMaxBytes && len(elems) > 1 {
				r.note("C11", "dd-size-limit", "dd-size-limit", "Datadog chunk %s is %d bytes uncompressed with %d records, the limit is %d", name, len(plain), len(elems), ddMaxBytes)
			}
			if os.Getenv("VERIF_DEBUG_DD") != "" {
				fmt.Fprintf(os.Stderr, "DD chunk %s: %d records, %d bytes plain\n", name, len(elems), len(plain))
			}
			if len(plain) >= ddMaxBytes-2 {
				out.probe("datadog_chunks_at_the_size_limit", 1)
			}
			if len(elems) == ddMaxRecords {
				out.probe("datadog_chunks_at_the_record_limit", 1)
			}
			// the array is exactly '[' + elements joined by ',' + ']': nothing between, before or after
			n := 2 + len(elems) - 1
			for _, e := range elems {
				n += len(e)
			}
			if len(elems) > 0 && n != len(plain) {
				r.note("C11", "dd-malformed", "dd-padding", "Datadog chunk %s: %d bytes, its %d elements and delimiters account for %d", name, len(plain), len(elems), n)
			}
			for _, e := range elems {
				var obj struct {
					Log string `json:"log"`
				}
				_ = json.Unmarshal(e, &obj)
				lg := obj.Log
				if i := strings.IndexAny(lg, " \n"); i >= 0 {
					lg = lg[:i]
				}
				sr := v.byStamp[lg]
				if sr == nil || sr.rec.Raw != "" {
					continue // unfinished tails and hostile material are judged by the Forward oracle of the same run
				}
				seen[lg]++
				if sr.rec.Drop {
					r.note("C11", "dd-filtered-record", "dd-filtered-record", "record %s carries the drop marker but is in Datadog chunk %s", lg, name)
					continue
				}
				ref.tag = r.expandTag(r.tupleOf(sr))
				want := ref.eval(framedMessage(sr))
				if sr.rec.Multi == 0 && v.tails[sr] == "" && !bytes.Equal(want.raw, e) {
					r.note("C11", "dd-altered", "dd-altered", "record %s in Datadog chunk %s is %q, the same record alone serializes to %q", lg, name, clip(string(e), 160), clip(string(want.raw), 160))
				}
				key := fmt.Sprintf("c%d", sr.client)
				if sr.seq <= lastSeq[key] {
					r.note("C11", "dd-order", "dd-order", "queue %s: record %s follows record n%d of the same connection", d, lg, lastSeq[key])
				}
				lastSeq[key] = sr.seq
			}
		}
	}
	for _, sr := range v.full {
		if sr.rec.Raw != "" || sr.rec.Drop {
			continue
		}
		out.Obligations++
		switch n := seen[stampOf(sr)]; {
		case n == 0 && v.dropped == 0:
			r.note("C11", "dd-record-in-no-chunk", "dd-record-in-no-chunk", "record %s was read by the agent but is in no Datadog chunk", stampOf(sr))
		case n > 1:
			r.note("C11", "dd-record-twice", "dd-record-twice", "record %s is in %d Datadog chunks", stampOf(sr), n)
		}
	}
}
