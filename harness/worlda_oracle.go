package harness

import (
	"fmt"
	"os"
	"path/filepath"
	"reflect"
	"sort"
	"strings"
	"time"

	"github.com/relex/fluentlib/protocol/forwardprotocol"
	"github.com/relex/gotils/logger"
	"github.com/relex/gotils/promexporter/promreg"
	"github.com/relex/slog-agent/base"
	"github.com/relex/slog-agent/base/bsupport"
	"github.com/relex/slog-agent/run"
	"github.com/vmihailenco/msgpack/v4"
)

// aReference runs the real parse -> transform -> serialize code on a fresh, single-record pipeline outside the
// concurrent system: the differential oracle for "what a record should look like upstream"
type aReference struct {
	conf   run.Config
	schema base.LogSchema
	tag    string
	cache  map[string]*aRefResult
}

type aRefResult struct {
	entry   *forwardprotocol.EventEntry
	dropped bool // dropped by a transform
	failed  bool // rejected by the parser
}

func newAReference(yaml string) (*aReference, error) {
	dir, err := os.MkdirTemp("", "verif-ref-")
	if err != nil {
		return nil, err
	}
	defer os.RemoveAll(dir)
	p := filepath.Join(dir, "ref.yml")
	if err := os.WriteFile(p, []byte(yaml), 0o644); err != nil {
		return nil, err
	}
	conf, schema, _, err := run.ParseConfigFile(p)
	if err != nil {
		return nil, err
	}
	return &aReference{conf: conf, schema: schema, cache: map[string]*aRefResult{}}, nil
}

// eval processes one framed message (no trailing newline) on a pipeline built from scratch
func (ref *aReference) eval(message string) *aRefResult {
	if r, ok := ref.cache[message]; ok {
		return r
	}
	res := &aRefResult{}
	ref.cache[message] = res
	mf := promreg.NewMetricFactory("ref_", nil, nil)
	alloc := base.NewLogAllocator(ref.schema, 1)
	inputCounter := base.NewLogInputCounter(mf.AddOrGetPrefix("input_", nil, nil))
	parser, err := ref.conf.Inputs[0].Value.NewParser(logger.Root(), alloc, ref.schema, inputCounter)
	if err != nil {
		res.failed = true
		return res
	}
	procCounter := base.NewLogProcessCounter(mf.AddOrGetPrefix("process_", nil, nil), ref.schema,
		ref.schema.MustCreateFieldLocators(ref.conf.MetricKeys), []string{ref.conf.OutputBuffersPairs[0].Name})
	transforms := bsupport.NewTransformsFromConfig(ref.conf.Transformations, ref.schema, logger.Root(), procCounter)
	serializer := ref.conf.OutputBuffersPairs[0].OutputConfig.Value.NewSerializer(logger.Root(), ref.schema, "ref")
	record := parser.Parse([]byte(message), time.Unix(0, 0))
	if record == nil {
		res.failed = true
		return res
	}
	procCounter.SelectMetricKeySet(record)
	if bsupport.RunTransforms(record, transforms) == base.DROP {
		res.dropped = true
		return res
	}
	stream := serializer.SerializeRecord(record)
	var e forwardprotocol.EventEntry
	if err := msgpack.Unmarshal(stream, &e); err != nil {
		res.failed = true
		return res
	}
	res.entry = &e
	return res
}

func sameEvent(a, b *forwardprotocol.EventEntry, compareTime bool) string {
	if compareTime && !a.Time.Equal(b.Time.Time) {
		return fmt.Sprintf("time %v vs reference %v", a.Time.UTC(), b.Time.UTC())
	}
	if !reflect.DeepEqual(a.Record, b.Record) {
		var keys []string
		for k := range a.Record {
			keys = append(keys, k)
		}
		for k := range b.Record {
			if _, ok := a.Record[k]; !ok {
				keys = append(keys, k)
			}
		}
		sort.Strings(keys)
		for _, k := range keys {
			if !reflect.DeepEqual(a.Record[k], b.Record[k]) {
				return fmt.Sprintf("field %q is %s, reference has %s", k, clip(fmt.Sprintf("%q", fmt.Sprint(a.Record[k])), 120), clip(fmt.Sprintf("%q", fmt.Sprint(b.Record[k])), 120))
			}
		}
		return "records differ"
	}
	return ""
}

func clip(s string, n int) string {
	if len(s) > n {
		return s[:n] + "..."
	}
	return s
}

// framedMessage is the message the framer hands to the parser for a record whose lines all arrived together
func framedMessage(sr *aSentRec) string { return strings.TrimSuffix(sr.line, "\n") }

type aDelivery struct {
	msg   *aMsg
	entry *forwardprotocol.EventEntry
}

// decodeChunkFile decodes a queue file as the Forward message it must be
func decodeChunkFile(data []byte) (*forwardprotocol.Message, error) {
	var m forwardprotocol.Message
	if err := msgpack.Unmarshal(data, &m); err != nil {
		return nil, err
	}
	return &m, nil
}

func (r *aRun) evaluate(out *Outcome) {
	s := r.s
	prop := map[string]string{"c01": "C01", "nofault": "C01", "limits": "C01"}[s.Profile]
	if prop == "" {
		prop = strings.ToUpper(s.Profile)
		if len(prop) > 3 {
			prop = prop[:3]
		}
	}
	if out.Res.Crash != nil {
		c := out.Res.Crash
		out.violate(prop, "crash", "crash:"+c.TopFrame("slog-agent", "gotils"), "goroutine %s of the agent panicked: %s\n%s", c.G, c.Value, clip(c.Stack, 3000))
		return
	}
	if out.Res.Stuck {
		out.violate(prop, "stuck", "driver", "driver stuck with nothing runnable (shutdown never returned?): %s", out.Res.StuckInfo)
		return
	}
	if out.Res.CapHit != "" {
		out.Harness = "run hit cap " + out.Res.CapHit
		return
	}
	if out.Harness != "" {
		return
	}
	ref, err := newAReference(s.configYAML(""))
	if err != nil {
		out.Harness = "reference config: " + err.Error()
		return
	}
	full, partial := r.readRecords()
	byStamp := map[string]*aSentRec{}
	allSent := map[string]*aSentRec{}
	for _, cs := range r.clients {
		for _, cr := range cs.conns {
			for _, sr := range cr.recs {
				allSent[stampOf(sr)] = sr
			}
		}
	}
	for _, sr := range full {
		byStamp[stampOf(sr)] = sr
	}
	partialStamp := map[string]*aSentRec{}
	for _, sr := range partial {
		partialStamp[stampOf(sr)] = sr
	}
	// unfinished last line per connection: the bytes the agent read after the last newline it read
	tails := map[*aSentRec]string{} // last fully read record of a connection -> unfinished bytes that followed it
	var tailList []string
	for _, cs := range r.clients {
		for _, cr := range cs.conns {
			n := min(cr.agentRead, len(cr.sent))
			i := strings.LastIndexByte(string(cr.sent[:n]), '\n')
			if i+1 >= n {
				continue
			}
			tail := string(cr.sent[i+1 : n])
			tailList = append(tailList, tail)
			var lastFull *aSentRec
			for _, sr := range cr.recs {
				if sr.end <= i+1 {
					lastFull = sr
				}
			}
			if lastFull != nil {
				tails[lastFull] = tail
			}
		}
	}
	deliveries := map[string][]aDelivery{}
	acked := map[string]bool{}
	for _, m := range r.srv.msgs {
		for i := range m.Entries {
			st := eventStamp(&m.Entries[i])
			deliveries[st] = append(deliveries[st], aDelivery{m, &m.Entries[i]})
			if m.AckSent {
				acked[st] = true
			}
		}
	}
	// what is on disk after the last stop
	onDisk := map[string]bool{}
	var last *aStop
	if len(r.stops) > 0 {
		last = &r.stops[len(r.stops)-1]
		for p, data := range last.Files {
			if !strings.HasSuffix(p, ".ff") {
				continue
			}
			m, derr := decodeChunkFile(data)
			if derr != nil {
				r.note("C11", "queue-file-undecodable", "queue-file-undecodable", "queue file %s does not decode as a Forward message: %v", p, derr)
				continue
			}
			for i := range m.Entries {
				onDisk[eventStamp(&m.Entries[i])] = true
			}
		}
	}
	droppedTotal := 0.0
	for _, st := range r.stops {
		for k, v := range st.Metrics {
			if strings.HasPrefix(k, "sim_process_buffer_dropped_chunks_total") {
				droppedTotal += v
			}
		}
	}
	want := func(p string) bool { return p == prop }

	if want("C01") {
		dups := 0
		for _, sr := range full {
			if sr.rec.Raw != "" {
				continue
			}
			st := stampOf(sr)
			out.Obligations++
			if sr.rec.Drop {
				if len(deliveries[st]) > 0 {
					r.note("C01", "filtered-record-delivered", "filtered-record-delivered", "record %s carries the drop marker but was delivered upstream", st)
				}
				continue
			}
			if !acked[st] && !onDisk[st] {
				if droppedTotal > 0 {
					r.note("C01", "unexpected-drop", "unexpected-drop", "record %s is gone and dropped_chunks_total=%v although no queue or disk limit was configured to be reachable", st, droppedTotal)
				} else {
					where := "never transmitted"
					if len(deliveries[st]) > 0 {
						where = fmt.Sprintf("transmitted %d times but never acknowledged", len(deliveries[st]))
					}
					r.note("C01", "lost", "lost", "record %s (client %d) was read by the agent but is neither acknowledged upstream nor in the on-disk queue after the final stop (%s)", st, sr.client, where)
				}
			}
			if n := len(deliveries[st]); n > 1 {
				dups += n - 1
			}
			for _, d := range deliveries[st] {
				if sr.rec.Multi > 0 {
					continue
				}
				diff := sameEvent(d.entry, ref.eval(framedMessage(sr)).entry, true)
				if diff != "" {
					// the one documented exception: when the connection ended in the middle of the next line, FlushAll hands the
					// unfinished line over together with the record before it (exactly those bytes, nothing else)
					if tail := tails[sr]; tail != "" {
						if alt := ref.eval(framedMessage(sr) + "\n" + tail); alt.entry != nil && sameEvent(d.entry, alt.entry, true) == "" {
							r.out.probe("unfinished_line_attached_to_last_record", 1)
							continue
						}
					}
					r.note("C01", "altered", "altered", "record %s arrived upstream altered: %s", st, diff)
				}
			}
		}
		for st, ds := range deliveries {
			out.Obligations++
			if byStamp[st] != nil {
				continue
			}
			if sr := partialStamp[st]; sr != nil {
				// the record that was being read when its connection was closed: a prefix may be forwarded by FlushAll
				got, _ := ds[0].entry.Record["log"].(string)
				wantLog, _ := ref.eval(framedMessage(sr)).entry.Record["log"].(string)
				if !strings.HasPrefix(wantLog, got) {
					r.note("C01", "altered", "altered-partial", "partially read record %s arrived as %q which is not a prefix of %q", st, clip(got, 80), clip(wantLog, 80))
				}
				r.out.probe("partial_tail_forwarded", 1)
				continue
			}
			if allSent[st] != nil {
				r.note("C01", "phantom", "delivered-unread", "record %s was delivered although the agent never read it completely", st)
				continue
			}
			okTail := false
			for _, tail := range tailList {
				if t := ref.eval(tail); t.entry != nil && sameEvent(ds[0].entry, t.entry, false) == "" {
					okTail = true
				}
			}
			if okTail {
				r.out.probe("partial_tail_forwarded", 1)
				continue
			}
			r.note("C01", "phantom", "phantom", "event with stamp %q was delivered but no client ever sent it", clip(st, 60))
		}
		if droppedTotal > 0 && s.Profile != "limits" {
			r.note("C01", "unexpected-drop", "unexpected-drop", "dropped_chunks_total=%v in a profile without reachable limits", droppedTotal)
		}
		if r.finalDeadlineHit {
			missing := 0
			first := ""
			for _, sr := range full {
				if !sr.rec.Drop && sr.rec.Raw == "" && !acked[stampOf(sr)] {
					missing++
					if first == "" {
						first = stampOf(sr)
					}
				}
			}
			r.note("C01", "liveness", "liveness", "%d records (first %s) were not acknowledged within the bound after the upstream became healthy at %v", missing, first, r.healthyFrom)
		}
		out.probe("duplicates_delivered", dups)
	}
	for _, e := range r.srv.decodeErr {
		r.note("C11", "malformed-message", "malformed-message", "the upstream could not decode a message: %s", e)
	}

	seen := map[string]bool{}
	for _, n := range r.notes {
		p := strings.SplitN(n, "\x00", 4)
		if !want(p[0]) || seen[p[1]+p[2]] {
			continue
		}
		seen[p[1]+p[2]] = true
		out.violate(p[0], p[1], p[2], "%s", p[3])
	}

	for _, pat := range []string{"aborted before queueing chunk for ack", "soft-stop requested while there are still pending", "received ACK to unknown chunk",
		"max session duration reached", "received a SIGUSR1", "unload chunk for queuing", "recovered chunks count=", "BUG:", "queue overflow, drop", "space limit reached",
		"created new sink while old sink"} {
		out.probe("log:"+pat, strings.Count(out.Log, pat))
	}
	out.probe("messages_received", len(r.srv.msgs))
	out.probe("pings_received", r.srv.pings)
	out.probe("records_fully_read", len(full))
	out.probe("records_on_disk_at_end", len(onDisk))
	out.probe("timer_ties", out.Res.TimerTies)
	if r.fs != nil {
		out.probe("fs_ops", r.fs.OpCount())
		out.probe("chunk_files_written", r.fs.Stats.Ops["rename"])
	}
	if r.net != nil {
		out.probe("fd_reuse", r.net.Stats.FdReuses)
		out.probe("partial_socket_writes", r.net.Stats.PartialWrites)
	}
	nf := 0
	for _, v := range out.Faults {
		nf += v
	}
	out.Nontrivial = nf > 0 && out.Obligations > 0
	var ms_ []string
	for i, m := range r.srv.msgs {
		if i >= 25 {
			ms_ = append(ms_, "...")
			break
		}
		ms_ = append(ms_, fmt.Sprintf("t=%v conn=%d attempt=%d tag=%s chunk=%s events=%d acked=%v", m.T, m.Conn, m.Attempt, m.Tag, m.ID, len(m.Entries), m.AckSent))
	}
	var ss []string
	for _, st := range r.stops {
		ss = append(ss, fmt.Sprintf("gen %d stopped at %v in %v, %d queue files", st.Gen, st.At, st.Took, len(st.Files)))
	}
	out.Sample = map[string]any{"scenario": s, "upstream_messages": ms_, "stops": ss}
}
