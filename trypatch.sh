#!/bin/bash
# usage: trypatch.sh <patch-file> <ID> [percent]  -- apply a patch to a scratch copy of the CURRENT /repo and run a property's quick check on it
P=$1; ID=$2; PC=${3:-100}
D=$(mktemp -d /tmp/trymut-XXXX); rsync -a --exclude .git /repo/ $D/repo/ && (cd $D/repo && patch -s -p1 < $P) || { echo PATCH-FAILED; rm -rf $D; exit 2; }
/verif/tryseed.sh $D/repo $ID $PC | grep -a -v "^check: built"
rm -rf $D
