#!/usr/bin/env python3
"""Regenerates /verif/MANIFEST.json from the table below (run after claiming or un-claiming a property)."""
import json, os
V = os.path.dirname(os.path.dirname(os.path.abspath(__file__)))
TECH = "deterministic simulation with fault injection (seeded schedule + fault search, history oracle vs reference model, minimised replay)"
checks = {
 "C02": dict(engine="world-B", cat="exploration", ref="DESIGN.md §5 C02",
   text="seeded search over upstream fault scripts, stop/reconnect moments and goroutine schedules of sender vs acknowledger vs connection opener; every run's event history is checked against a reference model (consumed only after complete send + designating ACK on the same connection, exactly-once resolution, oldest-first retransmission, bounded liveness after faults stop, bounded stop). Sampling, not enumeration: a clean batch is evidence, not proof.",
   note="trusted base: the simulator (simrt scheduler, simgo rewrite, Go's testing/synctest clock) and the scripted connection's adherence to the ClosableClientConnection contract; interleavings explored at yield-point granularity"),
 "C03": dict(engine="world-C", cat="exploration", ref="DESIGN.md §5 C03",
   text="seeded search over accept sequences, consumer behaviours, capacities, quotas, restart generations and goroutine schedules of producer vs feeder vs consumer on a simulated disk; conservation / FIFO / at-most-once confirmation / non-blocking accept / memory and byte bounds checked against a per-chunk reference model after every generation.",
   note="trusted base: simulator and simfs disk model; memory bound evaluated only on feeder-fair schedules; the consumer stub honours the ChunkConsumer contract (reacts to the stop signal)"),
 "C04": dict(engine="world-C", cat="fault_enumeration", ref="DESIGN.md §5 C04",
   text="within each seeded scenario the fault points of chunk persistence are enumerated from the recorded file-system trace (every create/write/close/rename/unlink of a chunk file x {error, kill}; for writes the byte offsets {0,1,n/2,n-1,n}+random as short write, error-after-k and kill-after-k), across scenarios placement is seeded; after restarts a healthy consumer must receive only byte-identical chunks and every intact file. Confirmed end to end in world A (profile c04a): the whole agent on a disk with seeded short writes, errors, a disk that stays full, and kills of the agent process at file operations (restarted each time), against a strict fake upstream: every received message decodes and equals its records, a chunk id transmitted again carries the same contents, damaged or planted files never block the queue, losses without a kill only with a counted drop.",
   note="crash model = process kill (completed writes survive, the write in progress stops after k bytes); power loss not modelled; simfs is a model of the kernel's file API"),
 "C08": dict(engine="world-E", cat="exploration", ref="DESIGN.md §5 C08",
   text="seeded search over record streams, read fragmentations and pause timings around the flush interval, plus the exhaustive sweep of all 1-cut and 2-cut splits of each short base stream, against the real listener/framer on simulated TCP; emitted messages compared with an independent line-based reference framer; in part of the runs the consumer blocks inside Accept (back-pressure) for up to 21 flush intervals while the rest of the stream waits in the socket.",
   note="trusted base: simulator and simnet (segment-preserving reads, deadline semantics of net.Conn); limits scaled down with the shipped relations; newline-terminated streams only"),
 "C17": dict(engine="world-D", cat="exploration", ref="DESIGN.md §5 C17",
   text="seeded search over the interleavings of sink registration, use and close with SIGHUP reloads (accepted and rejected) at the real ReloadableOrchestrator: the property's small case (two connections, one reload) with the distinct-interleaving count reported, larger API cases, and the composed case with the real listener on simulated TCP where descriptor numbers are reused like in the kernel; recording downstream orchestrators give the oracle R1-R6; end to end, world A runs the real Reloader with valid / invalid / incompatible configuration files rewritten before each SIGHUP under traffic and upstream faults.",
   note="trusted base: simulator, simnet's lowest-free descriptor model, simsignal, and for the end-to-end part the trusted base of C01"),
 "C01": dict(engine="world-A", cat="exploration", ref="DESIGN.md §5 C01",
   text="seeded search over record streams, upstream fault scripts per connection attempt, graceful restart histories and goroutine schedules of the whole agent on simulated network and disk; at-least-once judged on what the agent actually read vs what the fake upstream acknowledged or the queue directory holds after the final stop, every delivered event compared with a fresh-pipeline reference, bounded liveness after faults stop.",
   note="trusted base: simulator, simnet/simfs models, fluentlib decoding on the fake server, the sequential reference pipeline; TLS/handshake off; sampling, not proof"),
 "C05": dict(engine="world-A", cat="exploration", ref="DESIGN.md §5 C05",
   text="same world with shared key sets, small batches/chunks and forced spill; order of first deliveries per (connection, key set) and per-connection chunk order / no skipped older undelivered chunk checked over the fake upstream's global receive history; scheduler faults in part of the runs: late goroutine starts, descheduled goroutines, wall-clock steps, and pipeline workers held longer than the hand-over timeout while their connections keep delivering.",
   note="trusted base as C01; queue limits are not reachable in this profile (the documented skip path legitimately defers chunks)"),
 "C06": dict(engine="world-A", cat="exploration", ref="DESIGN.md §5 C06",
   text="same world with adversarial key values (empty, separators, control characters, bytes that are not UTF-8, colliding concatenations); tag, chunk membership and queue directory of every record judged against its own key tuple with an independent template expander, reattachment of queues after restarts judged from retransmissions.",
   note="trusted base as C01; key values reach the agent through syslog header tokens (no spaces)"),
 "C07": dict(engine="world-A", cat="exploration", ref="DESIGN.md §5 C07",
   text="same world fed with grammar-mutated hostile byte streams between well-formed sentinel records over fragmenting connections: no goroutine of the running agent may panic, sentinels must arrive unaltered, a clean connection afterwards must be served. The stream-level surface is what simulation adds; the per-record byte space of the pure functions is only sampled.",
   note="trusted base as C01; limits scaled down consistently, a slice runs at the shipped 1 MiB sizes"),
 "C11": dict(engine="world-A", cat="exploration", ref="DESIGN.md §5 C11",
   text="same world with chunk limits scaled down and sizes around them in all three Forward modes; every chunk that reaches the upstream or the disk (after spill, retry, recovery) is checked for well-formedness, self-description, id uniqueness, completeness and order. What simulation adds is the write/flush interleaving, ids cut at one clock instant and across restarts, and checking what actually arrives.",
   note="trusted base as C01; the Datadog chunk maker and serializer run for real in profile c11dd, the Datadog HTTP client (net/http, no seam) is replaced by a consumer that never takes a chunk"),
 "C12": dict(engine="world-A", cat="exploration", ref="DESIGN.md §5 C12",
   text="same world with every record pooled and the pool driven adversarially by the decision stream, several connections interleaved into shared pipelines; every delivered event, on one or two outputs, must equal the event of its own record on a fresh single-record pipeline for that output; configuration with per-record flags (unescape), composed fields in the input extractions and late conditional fields; released buffers poisoned in half of the runs; a quarter of the runs reload a configuration that appends a conditionally set schema field (record objects outlive the reload).",
   note="trusted base as C01; percentage sampling excluded (documented as stateful); a violation that depends on Go's per-map hash seed does not replay and is reported as harness error, not as violation (DESIGN.md §11.2 defect 16)"),
 "C18": dict(engine="world-A", cat="exploration", ref="DESIGN.md §5 C18",
   text="stop requests at seeded moments against every upstream state and load; simulated time from the stop request to the return of shutdownInputs()+Shutdown() compared with the bound computed from the timeouts configured for that run; nothing may be only in memory afterwards; plus the client-level stop bound in world B.",
   note="trusted base as C01; the fake clock makes minute-long timeouts free, so the bound is checked at shipped-order timeout values"),
 "C19": dict(engine="world-A", cat="exploration", ref="DESIGN.md §5 C19",
   text="balance equations between the agent's own counters and harness-observed events after every graceful stop of faulty runs, and per-label attribution: pipeline and labelled counters of every key-label tuple against the records with exactly those key values (two metric keys in half of the runs, with value pairs that coincide under plain concatenation, under length prefixes without terminator and under joining characters).",
   note="trusted base as C01; only relations determined by observable events are asserted (equalities where possible, inequalities where in-flight loss makes a quantity unobservable); profiles without reachable limits"),
}
na_pure = {
 "C09":"pure single-threaded function of one input line (syslogParser.Parse): no schedule, clock, fault or interleaving for a simulator to own (DESIGN.md §6)",
 "C10":"pure function of one record (SerializeRecord): no schedule, clock, fault or interleaving (DESIGN.md §6)",
 "C13":"pure function of one string (parseRFC3339Timestamp): no schedule, clock, fault or interleaving; its network-reachable crash is covered under C07 (DESIGN.md §6)",
 "C14":"pure function of one string (email redaction): no schedule, clock, fault or interleaving (DESIGN.md §6)",
 "C15":"pure functions of (config, record); sampled drop is a sequential counter without concurrency (DESIGN.md §6)",
 "C16":"pure function of one configuration file; invalid configs at reload time are part of C17 (DESIGN.md §6)",
}
engines = [
 {"name":"simrt+simgo","path":"sim/simrt, tools/cmd/simgo","kind_free_text":"deterministic scheduler inside a testing/synctest bubble (fake clock, quiescence) + AST instrumenter that routes every goroutine start, channel operation, select, lock, atomic, sleep and map iteration of a scratch copy of /repo through the scheduler, and makes every larger function entry a preemption point in a seeded part of the runs; one seed = one replayable execution"},
 {"name":"world-B","path":"harness/worldb.go","kind_free_text":"real baseoutput client worker/session/acknowledger against a scripted upstream connection with fault scripts; history oracle vs reference model"},
 {"name":"world-C","path":"harness/worldc.go, sim/simfs","kind_free_text":"real hybrid buffer + util/files.go on an in-memory disk with per-operation fault hook and process-kill model; producer, scripted consumer, restart generations"},
 {"name":"world-E","path":"harness/worlde.go, sim/simnet","kind_free_text":"real tcplistener + multiLineReader + NetConnWrapper on in-memory TCP with simulator-owned segmentation and timing; reference framer oracle"},
 {"name":"world-D","path":"harness/worldd.go","kind_free_text":"real run.ReloadableOrchestrator (and composed with the real listener) against recording downstream orchestrators, SIGHUP via simsignal, fd-reuse model"},
 {"name":"world-A","path":"harness/worlda.go","kind_free_text":"the whole agent from config file to Fluentd Forward client on simnet + simfs with a fake Fluentd server, restarts, reloads"},
]
props = [json.loads(l) for l in open(os.path.join(V, "properties.jsonl"))]
m = {"version":1, "setup_cmd":"./check build",
 "hooks":{"guard":"verif",
   "enable":"each check copies /repo's working tree to a scratch dir, instruments the copy with tools/cmd/simgo (all seams except one are inserted there, never in /repo) and builds the harness with `go1.26.8 test -c -tags verif`; /repo carries one add-only file behind the tag, output/fluentdforward/knobs_verif.go (setter/getter for two unexported chunk-size limits)",
   "baseline_off_cmd":"cd /repo && go build ./... && go test -vet=off -count=1 -timeout 25m ./...",
   "source_commits":["160ccad5e679a6a3bd0384212c99f5e672b59cf5"], "add_only":True},
 "engines":[], "checks":[], "not_applicable":[],
 "notes":"Deterministic simulation with fault injection; see DESIGN.md. ./check selftest proves determinism, ./check mutants <ID> proves sensitivity."}
for e in engines:
    e = dict(e); e["serves_properties"] = sorted(k for k,c in checks.items() if c["engine"]==e["name"] or e["name"]=="simrt+simgo")
    if e["serves_properties"]: m["engines"].append(e)
for p in props:
    i = p["id"]
    if i in checks:
        c = checks[i]
        m["checks"].append({"property_id":i, "quick_cmd":"./check %s --tier quick"%i, "thorough_cmd":"./check %s --tier thorough"%i,
          "evidence_file":"evidence/%s.json"%i, "replay_cmd_template":"./check replay {path}", "engine":c["engine"],
          "level_claimed":{"category":c["cat"],"text":c["text"],"design_ref":c["ref"]}, "level_note":c["note"], "technique":TECH})
    elif i in na_pure:
        m["not_applicable"].append({"property_id":i,"reason":na_pure[i]})
    else:
        m["not_applicable"].append({"property_id":i,"reason":"check not built yet (simulation world under construction, DESIGN.md §10); will be claimed once its check runs"})
json.dump(m, open(os.path.join(V,"MANIFEST.json"),"w"), indent=1)
print("claimed:", [c["property_id"] for c in m["checks"]])
