#!/usr/bin/env python3
"""Regenerates the results table of DESIGN.md (between the RESULTS markers) from evidence/*.json and evidence/thorough/*.json."""
import glob, json, os
V = os.path.dirname(os.path.dirname(os.path.abspath(__file__)))
def row(f):
    e = json.load(open(f)); c = e["coverage"]
    faults = c.get("faults_fired", {})
    nf = sum(faults.values())
    kf = c.get("known_findings_hit") or []
    return "| %s | %s | %s | %d | %d | %d | %.0f h | %d | %d kinds, %d firings | %d | %d | %s | %.0f s |" % (
        e["property_id"], e["tier"], e["seed"], c["evaluations"], c["distinct_nontrivial"], c["distinct_interleavings"]["count"],
        c["simulated_seconds"] / 3600, c["scheduler_steps"], len(faults), nf, c.get("oracle_obligations", 0), e["violations"],
        len(kf) if isinstance(kf, list) else kf, e["wall_s"])
out = ["| property | tier | seed | runs | distinct non-trivial | distinct interleavings | simulated time | scheduler steps | faults fired | oracle obligations | new violations | known findings hit | wall |",
       "|---|---|---|---|---|---|---|---|---|---|---|---|---|"]
for f in sorted(glob.glob(os.path.join(V, "evidence", "C*.json"))):
    out.append(row(f))
for f in sorted(glob.glob(os.path.join(V, "evidence", "thorough", "C*.json"))):
    out.append(row(f))
p = os.path.join(V, "DESIGN.md")
s = open(p).read()
a, b = "<!-- BEGIN:RESULTS -->", "<!-- END:RESULTS -->"
assert a in s and b in s
s = s[: s.index(a) + len(a)] + "\n" + "\n".join(out) + "\n" + s[s.index(b):]
open(p, "w").write(s)
print("results table: %d rows" % (len(out) - 2))
