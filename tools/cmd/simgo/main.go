// simgo instruments a scratch copy of slog-agent (and the two gotils packages it blocks in) for the
// deterministic simulator: every goroutine start, channel operation, select, close, sleep and map
// iteration is routed through verif.local/sim/simrt, and the imports that reach the scheduler, the
// network, the disk and signals are swapped for the simulator's seam packages. The rewrite is by type,
// not by text, so it applies to any edited tree that still compiles. It fails loudly (exit 2) on a
// construct it cannot rewrite faithfully.
package main

import (
	"bytes"
	"flag"
	"fmt"
	"go/ast"
	"go/format"
	"go/token"
	"go/types"
	"os"
	"path/filepath"
	"sort"
	"strconv"
	"strings"

	"golang.org/x/tools/go/ast/astutil"
	"golang.org/x/tools/go/packages"
)

const (
	simMod   = "verif.local/sim"
	rtPath   = simMod + "/simrt"
	rtName   = "simrt__"
	repoMod  = "github.com/relex/slog-agent"
	gotilMod = "github.com/relex/gotils"
)

// import substitutions applied to every instrumented file
var globalSubst = map[string]string{
	"sync":                       simMod + "/simsync",
	"sync/atomic":                simMod + "/simatomic",
	"github.com/puzpuzpuz/xsync": simMod + "/simxsync",
	"os/signal":                  simMod + "/simsignal",
	"net":                        simMod + "/simnet",
}

// import substitutions applied only to the disk-touching files
var fsSubst = map[string]string{
	"os":                    simMod + "/simfs/os",
	"golang.org/x/sys/unix": simMod + "/simfs/unix",
	"github.com/pkg/xattr":  simMod + "/simfs/xattr",
}

func isFsFile(rel string) bool {
	return rel == "util/files.go" || strings.HasPrefix(rel, "buffer/hybridbuffer/")
}

// packages of the repo that are not instrumented
func skipRepoPkg(path string) bool {
	rel := strings.TrimPrefix(strings.TrimPrefix(path, repoMod), "/")
	switch {
	case rel == "", rel == "cmd", rel == "test", rel == "testdata":
		return true
	}
	return false
}

// gotils files that are instrumented; "sleep" = only time.Sleep is rewritten (the file's channel sends run on
// prometheus' own collector goroutines, which are not registered with the scheduler)
var gotilsFiles = map[string]string{
	"channels/awaitable.go":           "all",
	"promexporter/promext/rwgauge.go": "sleep",
}

func fatalf(format string, args ...any) {
	fmt.Fprintf(os.Stderr, "simgo: "+format+"\n", args...)
	os.Exit(2)
}

func main() {
	repoDir := flag.String("repo", "", "scratch copy of the repository (rewritten in place)")
	gotilsDir := flag.String("gotils", "", "scratch copy of the gotils module (rewritten in place)")
	verbose := flag.Bool("v", false, "verbose")
	flag.Parse()
	if *repoDir == "" || *gotilsDir == "" {
		fatalf("usage: simgo -repo DIR -gotils DIR")
	}
	repoAbs, _ := filepath.Abs(*repoDir)
	gotilsAbs, _ := filepath.Abs(*gotilsDir)

	cfg := &packages.Config{
		Mode: packages.NeedName | packages.NeedFiles | packages.NeedCompiledGoFiles | packages.NeedSyntax |
			packages.NeedTypes | packages.NeedTypesInfo | packages.NeedImports | packages.NeedDeps,
		Dir:        repoAbs,
		BuildFlags: []string{"-tags=verif"},
		Env:        append(os.Environ(), "GOFLAGS=-mod=mod", "GOPROXY=off", "GOSUMDB=off"),
	}
	pkgs, err := packages.Load(cfg, "./...", gotilMod+"/channels", gotilMod+"/promexporter/promext")
	if err != nil {
		fatalf("load: %v", err)
	}
	nerr := 0
	for _, p := range pkgs {
		for _, e := range p.Errors {
			fmt.Fprintf(os.Stderr, "simgo: %s: %v\n", p.PkgPath, e)
			nerr++
		}
	}
	if nerr > 0 {
		fatalf("%d load/type errors: the tree does not compile", nerr)
	}
	sort.Slice(pkgs, func(i, j int) bool { return pkgs[i].PkgPath < pkgs[j].PkgPath })
	total := stats{}
	for _, p := range pkgs {
		var root string
		switch {
		case strings.HasPrefix(p.PkgPath, repoMod):
			if skipRepoPkg(p.PkgPath) {
				continue
			}
			root = repoAbs
		case strings.HasPrefix(p.PkgPath, gotilMod):
			root = gotilsAbs
		default:
			continue
		}
		for i, f := range p.Syntax {
			fn := p.CompiledGoFiles[i]
			rel, rerr := filepath.Rel(root, fn)
			if rerr != nil || strings.HasPrefix(rel, "..") {
				fatalf("file %s of %s is outside %s", fn, p.PkgPath, root)
			}
			if strings.HasSuffix(fn, "_test.go") {
				continue
			}
			if root == gotilsAbs && gotilsFiles[rel] == "" {
				continue
			}
			ins := &instr{pkg: p, file: f, rel: rel, fset: p.Fset, info: p.TypesInfo, isRepo: root == repoAbs}
			if root == gotilsAbs && gotilsFiles[rel] == "sleep" {
				ins.sleepOnly = true
			}
			if ins.run() {
				ins.write(fn)
				total.add(ins.st)
				if *verbose {
					fmt.Printf("simgo: %s %+v\n", rel, ins.st)
				}
			}
		}
	}
	fmt.Printf("simgo: files=%d go=%d send=%d recv=%d select=%d close=%d rangechan=%d rangemap=%d sleep=%d calls=%d imports=%d\n",
		total.files, total.gos, total.sends, total.recvs, total.selects, total.closes, total.rangeChans, total.rangeMaps,
		total.sleeps, total.calls, total.imports)
}

type stats struct {
	files, gos, sends, recvs, selects, closes, rangeChans, rangeMaps, sleeps, calls, imports, enters int
}

func (s *stats) add(o stats) {
	s.files++
	s.gos += o.gos
	s.sends += o.sends
	s.recvs += o.recvs
	s.selects += o.selects
	s.closes += o.closes
	s.rangeChans += o.rangeChans
	s.rangeMaps += o.rangeMaps
	s.sleeps += o.sleeps
	s.calls += o.calls
	s.imports += o.imports
	s.enters += o.enters
}

type instr struct {
	pkg       *packages.Package
	file      *ast.File
	rel       string
	fset      *token.FileSet
	info      *types.Info
	isRepo    bool
	sleepOnly bool
	st        stats
	n         int // unique suffix counter

	commNodes  map[ast.Node]bool         // recv exprs / send stmts that belong to a select clause
	rangeKind  map[*ast.RangeStmt]string // "chan" or "map"
	constArg   map[ast.Expr]bool
	labelSlot  map[*ast.BlockStmt]int // generated block whose statement at index needs the label
	keepAlive  map[string]bool        // declarations appended to keep imports used
	needRT     bool
	dirty      bool
	directives []string
}

// hasDirective reports whether the file carries a compiler directive that would be lost by rewriting it
func (in *instr) hasDirective() bool {
	for _, cg := range in.file.Comments {
		for _, c := range cg.List {
			if strings.HasPrefix(c.Text, "//go:linkname") || strings.HasPrefix(c.Text, "//go:embed") ||
				strings.HasPrefix(c.Text, "//go:noescape") || strings.HasPrefix(c.Text, "//export") {
				return true
			}
		}
	}
	return false
}

func (in *instr) site(n ast.Node) ast.Expr {
	p := in.fset.Position(n.Pos())
	return &ast.BasicLit{Kind: token.STRING, Value: strconv.Quote(fmt.Sprintf("%s:%d", in.rel, p.Line))}
}

func (in *instr) rt(name string) ast.Expr {
	in.needRT = true
	return &ast.SelectorExpr{X: ast.NewIdent(rtName), Sel: ast.NewIdent(name)}
}

func (in *instr) call(name string, args ...ast.Expr) *ast.CallExpr {
	return &ast.CallExpr{Fun: in.rt(name), Args: args}
}

func (in *instr) uniq(prefix string) string {
	in.n++
	return fmt.Sprintf("%s__%d", prefix, in.n)
}

func unparen(e ast.Expr) ast.Expr {
	for {
		p, ok := e.(*ast.ParenExpr)
		if !ok {
			return e
		}
		e = p.X
	}
}

func isRecv(e ast.Expr) (*ast.UnaryExpr, bool) {
	u, ok := unparen(e).(*ast.UnaryExpr)
	if ok && u.Op == token.ARROW {
		return u, true
	}
	return nil, false
}

func (in *instr) calleeIs(call *ast.CallExpr, pkgPath, name string) bool {
	var id *ast.Ident
	switch f := unparen(call.Fun).(type) {
	case *ast.Ident:
		id = f
	case *ast.SelectorExpr:
		id = f.Sel
	case *ast.IndexExpr:
		if s, ok := f.X.(*ast.SelectorExpr); ok {
			id = s.Sel
		}
	}
	if id == nil {
		return false
	}
	obj := in.info.Uses[id]
	if obj == nil {
		return false
	}
	if pkgPath == "" {
		_, isB := obj.(*types.Builtin)
		return isB && obj.Name() == name
	}
	fn, ok := obj.(*types.Func)
	if !ok || fn.Pkg() == nil {
		return false
	}
	if sig, ok := fn.Type().(*types.Signature); ok && sig.Recv() != nil {
		return false
	}
	return fn.Pkg().Path() == pkgPath && fn.Name() == name
}

func (in *instr) run() bool {
	in.commNodes = map[ast.Node]bool{}
	in.rangeKind = map[*ast.RangeStmt]string{}
	in.constArg = map[ast.Expr]bool{}
	in.labelSlot = map[*ast.BlockStmt]int{}
	in.keepAlive = map[string]bool{}

	// pre-pass on original nodes
	ast.Inspect(in.file, func(n ast.Node) bool {
		switch x := n.(type) {
		case *ast.SelectStmt:
			for _, c := range x.Body.List {
				cc := c.(*ast.CommClause)
				switch s := cc.Comm.(type) {
				case *ast.SendStmt:
					in.commNodes[s] = true
				case *ast.ExprStmt:
					if u, ok := isRecv(s.X); ok {
						in.commNodes[u] = true
					}
				case *ast.AssignStmt:
					if u, ok := isRecv(s.Rhs[0]); ok {
						in.commNodes[u] = true
					}
				}
			}
		case *ast.RangeStmt:
			if tv, ok := in.info.Types[x.X]; ok {
				switch tv.Type.Underlying().(type) {
				case *types.Chan:
					in.rangeKind[x] = "chan"
				case *types.Map:
					in.rangeKind[x] = "map"
				default:
					if tp, ok := tv.Type.(*types.TypeParam); ok {
						_ = tp
						fatalf("%s: range over type parameter not supported", in.fset.Position(x.Pos()))
					}
				}
			}
		case *ast.GoStmt:
			for _, a := range x.Call.Args {
				if tv, ok := in.info.Types[a]; ok && (tv.Value != nil || tv.IsNil()) {
					in.constArg[a] = true
				}
			}
		}
		return true
	})

	astutil.Apply(in.file, nil, func(c *astutil.Cursor) bool {
		if in.sleepOnly {
			if n, ok := c.Node().(*ast.CallExpr); ok && in.calleeIs(n, "time", "Sleep") {
				c.Replace(in.call("Sleep", in.site(n), n.Args[0]))
				in.keepAlive["var _ = time.Sleep"] = true
				in.st.sleeps++
				in.dirty = true
			}
			return true
		}
		switch n := c.Node().(type) {
		case *ast.GoStmt:
			c.Replace(in.rewriteGo(n))
			in.st.gos++
			in.dirty = true
		case *ast.SendStmt:
			if in.commNodes[n] {
				return true
			}
			c.Replace(&ast.ExprStmt{X: &ast.CallExpr{Fun: in.call("SendTo", in.site(n), n.Chan), Args: []ast.Expr{n.Value}}})
			in.st.sends++
			in.dirty = true
		case *ast.UnaryExpr:
			if n.Op != token.ARROW || in.commNodes[n] {
				return true
			}
			// v, ok := <-ch is handled at the assignment; a bare receive here
			if in.isTupleRecv(c.Parent(), n) {
				c.Replace(in.call("Recv2", in.site(n), n.X))
			} else {
				c.Replace(in.call("Recv", in.site(n), n.X))
			}
			in.st.recvs++
			in.dirty = true
		case *ast.SelectStmt:
			c.Replace(in.rewriteSelect(n))
			in.st.selects++
			in.dirty = true
		case *ast.RangeStmt:
			switch in.rangeKind[n] {
			case "chan":
				c.Replace(in.rewriteRangeChan(n))
				in.st.rangeChans++
				in.dirty = true
			case "map":
				in.rewriteRangeMap(n)
				in.st.rangeMaps++
				in.dirty = true
			}
		case *ast.LabeledStmt:
			if b, ok := n.Stmt.(*ast.BlockStmt); ok {
				if k, ok := in.labelSlot[b]; ok {
					b.List[k] = &ast.LabeledStmt{Label: n.Label, Stmt: b.List[k]}
					delete(in.labelSlot, b)
					c.Replace(b)
				}
			}
		case *ast.CallExpr:
			switch {
			case in.calleeIs(n, "", "close") && len(n.Args) == 1:
				c.Replace(in.call("Close", in.site(n), n.Args[0]))
				in.st.closes++
				in.dirty = true
			case in.calleeIs(n, "time", "Sleep"):
				c.Replace(in.call("Sleep", in.site(n), n.Args[0]))
				in.keepAlive["var _ = time.Sleep"] = true
				in.st.sleeps++
				in.dirty = true
			case in.isRepo && in.rel == "output/shared/chunkidgen.go" && in.calleeIs(n, "time", "Now") && len(n.Args) == 0:
				// chunk ids are wall-clock nanoseconds: two generators (old and new pipelines of one reload) never read the same
				// value in reality, but would under a simulated clock that stands still while code runs
				c.Replace(in.call("NowUnique"))
				in.keepAlive["var _ = time.Now"] = true
				in.st.calls++
				in.dirty = true
			case in.calleeIs(n, "reflect", "Select"):
				c.Replace(in.call("ReflectSelect", in.site(n), n.Args[0]))
				in.keepAlive["var _ = reflect.Select"] = true
				in.st.calls++
				in.dirty = true
			case in.calleeIs(n, "golang.org/x/exp/maps", "Keys"):
				c.Replace(in.call("MapKeys", in.site(n), n.Args[0]))
				in.keepAlive["var _ = maps.Keys[map[int]int]"] = true
				in.st.calls++
				in.dirty = true
			case in.calleeIs(n, "golang.org/x/exp/maps", "Values"):
				c.Replace(in.call("MapValues", in.site(n), n.Args[0]))
				in.keepAlive["var _ = maps.Values[map[int]int]"] = true
				in.st.calls++
				in.dirty = true
			case in.calleeIs(n, "maps", "Keys"), in.calleeIs(n, "maps", "Values"), in.calleeIs(n, "maps", "All"),
				in.calleeIs(n, "github.com/samber/lo", "Keys"), in.calleeIs(n, "github.com/samber/lo", "Values"),
				in.calleeIs(n, "github.com/samber/lo", "Entries"), in.calleeIs(n, "github.com/samber/lo", "MapToSlice"):
				fatalf("%s: unordered map helper not supported by the instrumenter", in.fset.Position(n.Pos()))
			case in.calleeIs(n, "runtime", "Gosched"):
				c.Replace(in.call("Yield", in.site(n)))
				in.keepAlive["var _ = runtime.Gosched"] = true
				in.st.calls++
				in.dirty = true
			}
		}
		return true
	})
	if len(in.labelSlot) != 0 {
		// blocks that were never labelled: fine
		in.labelSlot = nil
	}

	// function-entry preemption points (only active in runs that ask for fine-grained interleaving): a goroutine can be
	// descheduled between two calls, which is where unsynchronised sharing between goroutines shows. Small functions are
	// left alone (they stay inlinable; the calls around them are what matters).
	if in.isRepo && !in.sleepOnly && !in.hasDirective() {
		for _, d := range in.file.Decls {
			fd, ok := d.(*ast.FuncDecl)
			if !ok || fd.Body == nil || fd.Name.Name == "init" || len(fd.Body.List) < 3 {
				continue
			}
			name := fd.Name.Name
			if fd.Recv != nil && len(fd.Recv.List) == 1 {
				t := fd.Recv.List[0].Type
				if st, ok := t.(*ast.StarExpr); ok {
					t = st.X
				}
				if ix, ok := t.(*ast.IndexExpr); ok {
					t = ix.X
				}
				if ix, ok := t.(*ast.IndexListExpr); ok {
					t = ix.X
				}
				if id, ok := t.(*ast.Ident); ok {
					name = id.Name + "." + name
				}
			}
			p := in.fset.Position(fd.Pos())
			site := &ast.BasicLit{Kind: token.STRING, Value: strconv.Quote(fmt.Sprintf("enter %s:%d %s", in.rel, p.Line, name))}
			fd.Body.List = append([]ast.Stmt{&ast.ExprStmt{X: in.call("Enter", site)}}, fd.Body.List...)
			in.st.enters++
			in.dirty = true
		}
	}

	// import substitution
	for _, imp := range in.file.Imports {
		if in.sleepOnly {
			break
		}
		path, _ := strconv.Unquote(imp.Path.Value)
		repl, ok := globalSubst[path]
		if !ok && in.isRepo && isFsFile(in.rel) {
			repl, ok = fsSubst[path]
		}
		if !ok {
			continue
		}
		if imp.Name == nil {
			base := path[strings.LastIndex(path, "/")+1:]
			imp.Name = ast.NewIdent(base)
		}
		imp.Path.Value = strconv.Quote(repl)
		in.st.imports++
		in.dirty = true
	}
	return in.dirty
}

// isTupleRecv reports whether the receive expression is the sole rhs of a two-value assignment/definition
func (in *instr) isTupleRecv(parent ast.Node, u *ast.UnaryExpr) bool {
	switch p := parent.(type) {
	case *ast.AssignStmt:
		return len(p.Lhs) == 2 && len(p.Rhs) == 1 && unparen(p.Rhs[0]) == ast.Expr(u)
	case *ast.ValueSpec:
		return len(p.Names) == 2 && len(p.Values) == 1 && unparen(p.Values[0]) == ast.Expr(u)
	case *ast.ParenExpr:
		return false
	}
	return false
}

func define(name string, val ast.Expr) ast.Stmt {
	return &ast.AssignStmt{Lhs: []ast.Expr{ast.NewIdent(name)}, Tok: token.DEFINE, Rhs: []ast.Expr{val}}
}

func (in *instr) rewriteGo(g *ast.GoStmt) ast.Stmt {
	call := g.Call
	site := in.site(g)
	if lit, ok := unparen(call.Fun).(*ast.FuncLit); ok && len(call.Args) == 0 {
		return &ast.ExprStmt{X: in.call("Go", site, lit)}
	}
	if id, ok := unparen(call.Fun).(*ast.Ident); ok {
		if _, isB := in.info.Uses[id].(*types.Builtin); isB {
			fatalf("%s: go <builtin> not supported", in.fset.Position(g.Pos()))
		}
	}
	if tv, ok := in.info.Types[call.Fun]; ok && tv.IsType() {
		fatalf("%s: go <conversion> not supported", in.fset.Position(g.Pos()))
	}
	var stmts []ast.Stmt
	fn := in.uniq("f")
	stmts = append(stmts, define(fn, call.Fun))
	inner := &ast.CallExpr{Fun: ast.NewIdent(fn), Ellipsis: call.Ellipsis}
	for _, a := range call.Args {
		if in.constArg[a] {
			inner.Args = append(inner.Args, a)
			continue
		}
		an := in.uniq("a")
		stmts = append(stmts, define(an, a))
		inner.Args = append(inner.Args, ast.NewIdent(an))
	}
	if call.Ellipsis.IsValid() {
		inner.Ellipsis = 1
	}
	lit := &ast.FuncLit{Type: &ast.FuncType{Params: &ast.FieldList{}}, Body: &ast.BlockStmt{List: []ast.Stmt{&ast.ExprStmt{X: inner}}}}
	stmts = append(stmts, &ast.ExprStmt{X: in.call("Go", site, lit)})
	return &ast.BlockStmt{List: stmts}
}

func (in *instr) rewriteSelect(s *ast.SelectStmt) ast.Stmt {
	site := in.site(s)
	if len(s.Body.List) == 0 {
		return &ast.ExprStmt{X: in.call("BlockForever", site)}
	}
	sel := in.uniq("s")
	var pre []ast.Stmt
	var caseExprs []ast.Expr
	var clauses []ast.Stmt
	hasDefault := false
	idx := 0
	for _, c := range s.Body.List {
		cc := c.(*ast.CommClause)
		if cc.Comm == nil {
			hasDefault = true
			clauses = append(clauses, &ast.CaseClause{List: nil, Body: cc.Body})
			continue
		}
		chName := in.uniq("c")
		var body []ast.Stmt
		switch st := cc.Comm.(type) {
		case *ast.SendStmt:
			pre = append(pre, define(chName, st.Chan))
			caseExprs = append(caseExprs, &ast.CallExpr{Fun: in.call("SendCaseTo", ast.NewIdent(chName)), Args: []ast.Expr{st.Value}})
		case *ast.ExprStmt:
			u, ok := isRecv(st.X)
			if !ok {
				fatalf("%s: unsupported select clause", in.fset.Position(cc.Pos()))
			}
			pre = append(pre, define(chName, u.X))
			caseExprs = append(caseExprs, in.call("RecvCase", ast.NewIdent(chName)))
		case *ast.AssignStmt:
			u, ok := isRecv(st.Rhs[0])
			if !ok {
				fatalf("%s: unsupported select clause", in.fset.Position(cc.Pos()))
			}
			pre = append(pre, define(chName, u.X))
			caseExprs = append(caseExprs, in.call("RecvCase", ast.NewIdent(chName)))
			fn := "As"
			if len(st.Lhs) == 2 {
				fn = "As2"
			}
			body = append(body, &ast.AssignStmt{Lhs: st.Lhs, Tok: st.Tok,
				Rhs: []ast.Expr{in.call(fn, ast.NewIdent(chName), ast.NewIdent(sel))}})
		default:
			fatalf("%s: unsupported select clause", in.fset.Position(cc.Pos()))
		}
		body = append(body, cc.Body...)
		clauses = append(clauses, &ast.CaseClause{
			List: []ast.Expr{&ast.BasicLit{Kind: token.INT, Value: strconv.Itoa(idx)}},
			Body: body,
		})
		idx++
	}
	hd := "false"
	if hasDefault {
		hd = "true"
	} else {
		// keeps the statement terminating when every clause terminates, like the select it replaces
		clauses = append(clauses, &ast.CaseClause{List: nil, Body: []ast.Stmt{&ast.ExprStmt{X: &ast.CallExpr{
			Fun: ast.NewIdent("panic"), Args: []ast.Expr{&ast.BasicLit{Kind: token.STRING, Value: `"simgo: unreachable select outcome"`}}}}}})
	}
	args := append([]ast.Expr{site, ast.NewIdent(hd)}, caseExprs...)
	sw := &ast.SwitchStmt{
		Init: define(sel, in.call("Select", args...)),
		Tag:  &ast.SelectorExpr{X: ast.NewIdent(sel), Sel: ast.NewIdent("I")},
		Body: &ast.BlockStmt{List: clauses},
	}
	blk := &ast.BlockStmt{List: append(pre, sw)}
	in.labelSlot[blk] = len(pre)
	return blk
}

func (in *instr) rewriteRangeChan(r *ast.RangeStmt) ast.Stmt {
	site := in.site(r)
	ch := in.uniq("c")
	okName := in.uniq("ok")
	var recv ast.Stmt
	if r.Key == nil || isBlank(r.Key) {
		recv = &ast.AssignStmt{Lhs: []ast.Expr{ast.NewIdent("_"), ast.NewIdent(okName)}, Tok: token.DEFINE,
			Rhs: []ast.Expr{in.call("Recv2", site, ast.NewIdent(ch))}}
	} else if r.Tok == token.DEFINE {
		recv = &ast.AssignStmt{Lhs: []ast.Expr{r.Key, ast.NewIdent(okName)}, Tok: token.DEFINE,
			Rhs: []ast.Expr{in.call("Recv2", site, ast.NewIdent(ch))}}
	} else {
		// assignment form: declare ok first
		recv = &ast.BlockStmt{} // placeholder, replaced below
	}
	brk := &ast.IfStmt{Cond: &ast.UnaryExpr{Op: token.NOT, X: ast.NewIdent(okName)},
		Body: &ast.BlockStmt{List: []ast.Stmt{&ast.BranchStmt{Tok: token.BREAK}}}}
	var body []ast.Stmt
	if _, isPlaceholder := recv.(*ast.BlockStmt); isPlaceholder {
		body = append(body,
			&ast.DeclStmt{Decl: &ast.GenDecl{Tok: token.VAR, Specs: []ast.Spec{&ast.ValueSpec{
				Names: []*ast.Ident{ast.NewIdent(okName)}, Type: ast.NewIdent("bool")}}}},
			&ast.AssignStmt{Lhs: []ast.Expr{r.Key, ast.NewIdent(okName)}, Tok: token.ASSIGN,
				Rhs: []ast.Expr{in.call("Recv2", site, ast.NewIdent(ch))}})
	} else {
		body = append(body, recv)
	}
	body = append(body, brk)
	body = append(body, r.Body.List...)
	loop := &ast.ForStmt{Body: &ast.BlockStmt{List: body}}
	blk := &ast.BlockStmt{List: []ast.Stmt{define(ch, r.X), loop}}
	in.labelSlot[blk] = 1
	return blk
}

func isBlank(e ast.Expr) bool {
	id, ok := e.(*ast.Ident)
	return ok && id.Name == "_"
}

func (in *instr) rewriteRangeMap(r *ast.RangeStmt) {
	site := in.site(r)
	r.X = in.call("Entries", site, r.X)
	hasK := r.Key != nil && !isBlank(r.Key)
	hasV := r.Value != nil && !isBlank(r.Value)
	if !hasK && !hasV {
		if r.Key != nil {
			r.Key = ast.NewIdent("_")
			r.Value = nil
			r.Tok = token.ASSIGN
			// "for _ = range x" is valid
		}
		return
	}
	e := in.uniq("e")
	var lhs, rhs []ast.Expr
	if hasK {
		lhs = append(lhs, r.Key)
		rhs = append(rhs, &ast.SelectorExpr{X: ast.NewIdent(e), Sel: ast.NewIdent("K")})
	}
	if hasV {
		lhs = append(lhs, r.Value)
		rhs = append(rhs, &ast.SelectorExpr{X: ast.NewIdent(e), Sel: ast.NewIdent("V")})
	}
	bind := &ast.AssignStmt{Lhs: lhs, Tok: r.Tok, Rhs: rhs}
	r.Key = ast.NewIdent("_")
	r.Value = ast.NewIdent(e)
	r.Tok = token.DEFINE
	r.Body.List = append([]ast.Stmt{bind}, r.Body.List...)
}

func (in *instr) write(path string) {
	src, err := os.ReadFile(path)
	if err != nil {
		fatalf("%v", err)
	}
	// keep build constraints, refuse compiler directives we would destroy by dropping comments
	var header []string
	for _, ln := range strings.Split(string(src), "\n") {
		t := strings.TrimSpace(ln)
		if strings.HasPrefix(t, "package ") {
			break
		}
		if strings.HasPrefix(t, "//go:build") || strings.HasPrefix(t, "// +build") {
			header = append(header, t)
		}
	}
	for _, cg := range in.file.Comments {
		for _, c := range cg.List {
			if strings.HasPrefix(c.Text, "//go:linkname") || strings.HasPrefix(c.Text, "//go:embed") ||
				strings.HasPrefix(c.Text, "//go:noescape") || strings.HasPrefix(c.Text, "//export") {
				fatalf("%s: file needs instrumentation but carries compiler directive %q", path, c.Text)
			}
		}
	}
	in.file.Comments = nil
	in.file.Doc = nil
	ast.Inspect(in.file, func(n ast.Node) bool {
		switch x := n.(type) {
		case *ast.FuncDecl:
			x.Doc = nil
		case *ast.GenDecl:
			x.Doc = nil
		case *ast.Field:
			x.Doc, x.Comment = nil, nil
		case *ast.ValueSpec:
			x.Doc, x.Comment = nil, nil
		case *ast.TypeSpec:
			x.Doc, x.Comment = nil, nil
		case *ast.ImportSpec:
			x.Doc, x.Comment = nil, nil
		}
		return true
	})
	if in.needRT {
		astutil.AddNamedImport(in.fset, in.file, rtName, rtPath)
	}
	var buf bytes.Buffer
	for _, h := range header {
		buf.WriteString(h + "\n")
	}
	if len(header) > 0 {
		buf.WriteString("\n")
	}
	if err := format.Node(&buf, in.fset, in.file); err != nil {
		fatalf("print %s: %v", path, err)
	}
	keys := make([]string, 0, len(in.keepAlive))
	for k := range in.keepAlive {
		keys = append(keys, k)
	}
	sort.Strings(keys)
	for _, k := range keys {
		buf.WriteString("\n" + k + "\n")
	}
	if err := os.WriteFile(path, buf.Bytes(), 0o644); err != nil {
		fatalf("%v", err)
	}
}
