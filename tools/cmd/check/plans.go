package main

func init() {
	plans["C02"] = plan{
		Level: "exploration",
		Parts: []part{{"B", "mixed", 110000, 4}, {"B", "stop", 40000, 2}, {"B", "nofault", 6000, 1}},
		Rule: "each run = one seeded scenario (chunk feed schedule, per-connection-attempt script of connect/send/ping/ACK outcomes, knob values, " +
			"stop and SIGUSR1 times) executed under one seeded goroutine schedule; the history of send-complete / ACK-returned / consumed / " +
			"handed-back / finished events is checked against the reference model (S1 consumed only after complete send + designating ACK on the same " +
			"connection, S2 exactly-once resolution, S3 hand-back only after stop, S4 oldest-first retransmission, L1 bounded liveness after faults stop, " +
			"L2 bounded stop). A run is non-trivial when at least one scripted fault fired and at least one oracle obligation was evaluated; distinct = " +
			"distinct (scenario hash, context-switch-sequence hash) pairs.",
		Real: []string{"output/baseoutput (ClientWorker, clientSession, acknowledger, metrics)", "gotils channels (Awaitable)", "util.RunOnce, util.CollectFromChannel"},
		Stub: []string{"ClosableClientConnection (scripted Fluentd-style and Datadog-style families)", "chunk source modelled on hybridbuffer's outputFeeder", "recording consumed/leftover/finished callbacks"},
		Assumption: []string{
			"the scripted connection honours the ClosableClientConnection contract: after Close every pending and later call fails promptly (Fluentd family); the Datadog family has a no-op Close and calls bounded by the HTTP timeout, as output/datadog does",
			"schedules are explored at the granularity of the instrumented yield points (channel operations, selects, atomics, locks, goroutine starts, seam calls)",
			"computation takes zero simulated time; slowness exists only as scripted delays",
		},
	}
}
