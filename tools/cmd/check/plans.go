package main

func init() {
	plans["C02"] = plan{
		Level: "exploration",
		Parts: []part{{"B", "mixed", 110000, 4, 0}, {"B", "stop", 40000, 2, 0}, {"B", "nofault", 6000, 1, 0}},
		Rule: "each run = one seeded scenario (chunk feed schedule, per-connection-attempt script of connect/send/ping/ACK outcomes, knob values, " +
			"stop and SIGUSR1 times) executed under one seeded goroutine schedule; the history of send-complete / ACK-returned / consumed / " +
			"handed-back / finished events is checked against the reference model (S1 consumed only after complete send + designating ACK on the same " +
			"connection, S2 exactly-once resolution, S3 hand-back only after stop, S4 oldest-first retransmission, L1 bounded liveness after faults stop, " +
			"L2 bounded stop). A run is non-trivial when at least one scripted fault fired and at least one oracle obligation was evaluated; distinct = " +
			"distinct (scenario hash, context-switch-sequence hash) pairs.",
		Real: []string{"output/baseoutput (ClientWorker, clientSession, acknowledger, metrics)", "gotils channels (Awaitable)", "util.RunOnce, util.CollectFromChannel"},
		Stub: []string{"ClosableClientConnection (scripted Fluentd-style and Datadog-style families)", "chunk source modelled on hybridbuffer's outputFeeder", "recording consumed/leftover/finished callbacks"},
		Assumption: []string{
			"the scripted connection honours the ClosableClientConnection contract: after Close every pending and later call fails promptly (Fluentd family); the Datadog family has a no-op Close and calls bounded by the HTTP timeout, as output/datadog does",
			"schedules are explored at the granularity of the instrumented yield points (channel operations, selects, atomics, locks, goroutine starts, seam calls)",
			"computation takes zero simulated time; slowness exists only as scripted delays",
		},
	}
	plans["C03"] = plan{
		Level: "exploration",
		Parts: []part{{"C", "normal", 12000, 2, 0}, {"C", "limits", 24000, 3, 0}},
		Rule: "each run = one seeded scenario (1-4 generations on one queue directory; per generation a sequence of Accept calls with boundary-biased sizes, " +
			"a consumer script confirm/hold/stall/never-start/stop-early, Destroy at an arbitrary point; memory window, queue capacity and byte quota drawn per run; " +
			"optionally an unusable queue directory) executed under one seeded goroutine schedule on the simulated disk. Oracle: conservation (confirmed => file gone; " +
			"else identical file, else counted dropped; lost <= dropped_chunks_total), at-most-once confirmation across generations, FIFO delivery with recovered chunks first, " +
			"byte equality, Accept takes zero simulated time, memory window bound on feeder-fair schedules, byte quota, Destroy within its own timeout. Non-trivial: a limit, " +
			"stall or directory fault fired and obligations were evaluated; distinct = (scenario hash, context-switch hash).",
		Real: []string{"buffer/hybridbuffer (bufferer, outputFeeder, chunkManager, chunkOperator, queuedirs)", "util/files.go", "gotils channels, promext gauges"},
		Stub: []string{"disk (simfs in-memory tree behind os/unix/xattr façades)", "chunk producer", "scripted consumer"},
		Assumption: []string{
			"API contract of orchestrate/obase/pipelines.go: no Accept concurrent with or after Destroy",
			"the memory bound is evaluated only when the feeder is allowed to reach its blocking point between two Accepts (the spill decision looks at the window length)",
			"crash model = process kill; no power loss (the code never fsyncs and the property does not claim it)",
		},
	}
	plans["C04"] = plan{
		Level: "fault_enumeration",
		Parts: []part{{"C", "disk", 30000, 2, 0}, {"C", "enum", 320, 3, 0}, {"A", "c04a", 1600, 2, 200}},
		Rule: "world C with disk faults. Profile disk: 1-3 seeded faults per run (short write with nil error, error after k bytes, ENOSPC/EIO/EDQUOT at create/write/close/unlink/read, " +
			"kill at an operation or after k bytes of a write, unreadable file), then restarts and a final healthy generation. Profile enum: for each seeded base scenario the " +
			"fault-free run records the file-system trace; the scenario is then re-run once per fault point: every create/write/close of every chunk file x {kill, error} and for " +
			"write every byte offset k in {0,1,n/2,n-1,n} plus random ones as short write, error after k bytes and kill after k bytes. Oracle: every chunk any consumer ever receives is " +
			"byte-identical to what was produced; an intact readable file is delivered by the final healthy generation whatever damaged files sit beside it; nothing that no producer made is forwarded (temporary or foreign files); per generation without a kill, chunks that are gone plus zero-length files removed at recovery <= dropped_chunks_total (accounting clause). Non-trivial: a disk fault fired. " +
			"Profile c04a (world A) is the end-to-end confirmation: the whole agent with the real serializer, chunk maker, Forward client and a strict fake upstream on the simulated disk; 1-3 seeded faults on chunk files " +
			"(short write, error after k bytes - in half of the cases a disk that stays full for that generation -, errors at create/close/rename/open/read/unlink, kill of the agent process at an operation or after k bytes of a write; the killed process is started again 100 ms later), " +
			"0-3 graceful restarts, in a quarter of the runs a zero-length file with a chunk's name and a stray temporary file planted before the last start; then a fault-free tail: one more graceful restart and a healthy upstream. " +
			"Oracle there: every message the upstream receives decodes completely and its size option equals its contents; a chunk id transmitted twice carries the same contents; every delivered event equals the fresh-pipeline event of its own record; " +
			"every chunk file the last generation found at its start is gone when it stops (acknowledged, or removed as corrupt) and the queue is drained within the liveness bound (damaged files do not block the others); no file with a chunk's name is left that does not decode; " +
			"without a kill, records are missing only when dropped_chunks_total > 0.",
		Real: []string{"buffer/hybridbuffer", "util/files.go (WriteFileAt/ReadFileAt/UnlinkFileAt/StatFileAt)", "profile c04a: the whole agent as run.Run assembles it (sysloginput, tcplistener, parser, transforms, orchestrator, pipelines, fluentdforward serializer/chunk maker/client, baseoutput, hybridbuffer, util/files.go, metrics)"},
		Stub: []string{"disk (simfs) with per-operation fault hook and process-kill model", "producer", "scripted consumer", "profile c04a: syslog clients, fake Fluentd Forward upstream (fluentlib forwardprotocol + msgpack), network (simnet), driver that restarts a killed agent"},
		Assumption: []string{
			"crash model = process kill: every completed write(2) survives, the write in progress stops after k bytes, nothing else is lost; power loss is out of scope",
			"a short write returns n < len with nil error, as write(2) does when the disk fills or a file-size limit is hit mid-call",
		},
	}
	plans["C08"] = plan{
		Level: "exploration",
		Parts: []part{{"E", "mixed", 40000, 3, 0}, {"E", "single", 15000, 1, 0}, {"E", "sweep", 48, 3, 0}},
		Rule: "each run = 1-2 client connections, each a newline-terminated stream of single- and multi-line records with interspersed garbage lines, cut into read " +
			"fragments (segment-preserving simulated TCP: one client write = one agent read) with pauses drawn around the flush interval (0, just below, equal, just above, multiples), " +
			"under one seeded goroutine schedule; profile sweep additionally runs ALL 1-cut and 2-cut splits of each short base stream. Oracle: emitted messages vs an independent " +
			"line-based reference framer: heads exactly once and in order, each record = head + prefix of its continuation lines, full equality when the stream arrives within " +
			"less than the flush interval and for single-line streams under any timing; messages failing the start test may only consist of unused non-start lines. " +
			"Non-trivial: fragmentation or a pause >= half the flush interval occurred.",
		Real: []string{"input/tcplistener (listener, runConnection, multiLineReader)", "util.NetConnWrapper", "syslogprotocol.TestRecordStart", "gotils channels"},
		Stub: []string{"TCP (simnet)", "clients", "recording MultiSinkMessageReceiver"},
		Assumption: []string{
			"record and line-buffer limits are scaled down consistently (record limit 512 B, line buffer 4x) and records stay below them",
			"streams are newline-terminated (the property's quantifier); a partial last line is covered by C01/C07's partial-tail rule",
		},
	}
	plans["C17"] = plan{
		Level: "exploration",
		Parts: []part{{"D", "api2", 8000, 2, 250}, {"D", "api", 8000, 2, 250}, {"D", "composed", 5000, 3, 250}, {"A", "c17a", 1600, 3, 200}},
		Rule: "world D: the real ReloadableOrchestrator with recording downstream orchestrators; 1-2 SIGHUPs (accepted or rejected by the scripted initiateReload) delivered through " +
			"simsignal at arbitrary scheduling points while 2-6 connections register, use and close their sinks. Level api2 = the small case of the property (two connections, one " +
			"reload, all at one instant; the distinct-interleaving count is reported to show saturation); level api = more connections/reloads with unique client numbers; level composed = " +
			"real TCP listener + parsing receiver on simnet with the kernel's lowest-free descriptor rule, connections opening right when others close. Oracle: R1 no call reaches a sink " +
			"of a shut-down orchestrator, R2 every record reaches exactly one downstream sink, R3 a sink is used only by its own connection and never by two goroutines at once, " +
			"R4 sinks closed before shutdown and nothing leaked, R5 reload counters and orchestrator count match the scripted outcomes, R6 no panic. " +
			"World A profile c17a: the real Reloader with the config file rewritten to a valid (field and transformation added), syntactically invalid or incompatible (orchestration keys changed) " +
			"variant before each SIGHUP while traffic flows and the upstream misbehaves: no read record lost, every event equals the reference of the old or of the new configuration, " +
			"never more reload effects than signals, a rejected configuration is never applied. Non-trivial: a reload happened.",
		Real:       []string{"run/reloadable.go (ReloadableOrchestrator, ReloadableSink)", "composed level: input/tcplistener, bsupport.logParsingReceiver, syslogparser", "gotils channels"},
		Stub:       []string{"downstream orchestrators and sinks (recording)", "InitiateReloadingFunc (scripted)", "SIGHUP (simsignal)", "TCP + descriptor numbers (simnet)"},
		Assumption: []string{"the api levels respect the code's own assumption that client numbers are unique among open sinks; the composed level does not assume it"},
	}
	plans["C01"] = plan{
		Level: "exploration",
		Parts: []part{{"A", "c01", 2400, 5, 200}, {"A", "c01two", 700, 2, 200}, {"A", "nofault", 300, 1, 200}, {"A", "limits", 600, 1, 200}},
		Rule: "world A: each run = one seeded scenario (1-4 syslog clients with bursts, pauses around the flush interval and records split across writes; 1-5 key tuples; knobs for batch size, memory window, chunk limits, message mode, timeouts; a script of upstream behaviour per connection attempt: refuse / connect timeout / reset after k messages / reset mid-stream / never ACK / late ACK / ACK of unknown id / accept but never read / close; graceful stop+restart generations on the same queue directory; SIGUSR1; a fault-free tail) executed under one seeded goroutine schedule. " +
			"Oracle C01: every record whose final newline the agent read and that the marker filter does not drop is, after the final stop, inside a message the upstream acknowledged or inside a chunk file of the queue directory; every delivered event equals the reference event of its own record (exceptions: the unfinished last line of a connection, exactly as FlushAll hands it over); no event without a sent record; dropped_chunks_total stays 0 unless the profile configures reachable limits, where loss is allowed only when counted; bounded liveness after the upstream became healthy. Profile c01two configures a second output/buffer pair (other message mode and serialization settings, its own queue root and its own upstream running the same fault script on its own connection attempts): the same obligations hold for each output separately. Non-trivial: at least one fault fired and oracle obligations were evaluated; distinct = (scenario hash, context-switch hash).",
		Real: []string{"the whole agent as run.Run assembles it: run.Loader/Reloader, sysloginput, tcplistener, syslogparser, transforms, byKeySet orchestrator, pipelines, fluentdforward serializer/chunk maker/client, baseoutput, hybridbuffer, util/files.go, metrics", "gotils channels, promext", "fluentlib forwardprotocol + msgpack (decoding on the fake server side)"},
		Stub: []string{"TCP both ways (simnet)", "disk (simfs)", "signals (simsignal)", "syslog clients", "fake Fluentd Forward server scripted per connection attempt", "driver (graceful stop + restart, SIGHUP with rewritten config file, SIGUSR1)", "sync.Pool (simsync.Pool)"},
		Assumption: []string{
			"the reference for what a record should look like upstream is the real parse/transform/serialize code run on a fresh single-record pipeline outside the concurrent system (differential oracle)",
			"limits are scaled down with the shipped relations (message 1 KiB, record = message + 256, line buffer = 4 x record); computation takes zero simulated time",
			"TLS and the shared-secret handshake are off; the Datadog output is not part of this world",
		},
	}
	plans["C05"] = plan{
		Level: "exploration",
		Parts: []part{{"A", "c05", 3200, 1, 200}},
		Rule: "world A: each run = one seeded scenario (1-4 syslog clients with bursts, pauses around the flush interval and records split across writes; 1-5 key tuples; knobs for batch size, memory window, chunk limits, message mode, timeouts; a script of upstream behaviour per connection attempt: refuse / connect timeout / reset after k messages / reset mid-stream / never ACK / late ACK / ACK of unknown id / accept but never read / close; graceful stop+restart generations on the same queue directory; SIGUSR1; a fault-free tail) executed under one seeded goroutine schedule. " +
			"Profile c05 shares key sets between connections, scales batch and chunk limits down and forces spill. Oracle C05: per (connection, key set) the first deliveries appear upstream in arrival order; per upstream connection chunk ids never decrease and no chunk is transmitted while an older chunk of the same pipeline, seen by the upstream before and not acknowledged, has not been retransmitted on that connection. Non-trivial: at least one fault fired and oracle obligations were evaluated; distinct = (scenario hash, context-switch hash).",
		Real: []string{"the whole agent as run.Run assembles it: run.Loader/Reloader, sysloginput, tcplistener, syslogparser, transforms, byKeySet orchestrator, pipelines, fluentdforward serializer/chunk maker/client, baseoutput, hybridbuffer, util/files.go, metrics", "gotils channels, promext", "fluentlib forwardprotocol + msgpack (decoding on the fake server side)"},
		Stub: []string{"TCP both ways (simnet)", "disk (simfs)", "signals (simsignal)", "syslog clients", "fake Fluentd Forward server scripted per connection attempt", "driver (graceful stop + restart, SIGHUP with rewritten config file, SIGUSR1)", "sync.Pool (simsync.Pool)"},
		Assumption: []string{
			"the reference for what a record should look like upstream is the real parse/transform/serialize code run on a fresh single-record pipeline outside the concurrent system (differential oracle)",
			"limits are scaled down with the shipped relations (message 1 KiB, record = message + 256, line buffer = 4 x record); computation takes zero simulated time",
			"TLS and the shared-secret handshake are off; the Datadog output is not part of this world",
		},
	}
	plans["C06"] = plan{
		Level: "exploration",
		Parts: []part{{"A", "c06", 3200, 1, 200}},
		Rule: "world A: each run = one seeded scenario (1-4 syslog clients with bursts, pauses around the flush interval and records split across writes; 1-5 key tuples; knobs for batch size, memory window, chunk limits, message mode, timeouts; a script of upstream behaviour per connection attempt: refuse / connect timeout / reset after k messages / reset mid-stream / never ACK / late ACK / ACK of unknown id / accept but never read / close; graceful stop+restart generations on the same queue directory; SIGUSR1; a fault-free tail) executed under one seeded goroutine schedule. " +
			"Profile c06 draws key values from an adversarial alphabet (empty, a, b, ab, bc, comma, 'a,b', slash, NUL, dots, long) with colliding pairs such as ('ab','c')/('a','bc') and ('a,b','c')/('a','b,c') in most runs, 1-3 key fields, templates with substrings and single-variable templates ($app, which the tag builder returns without copying), restarts and never-ACK so that recovery from .id files runs. Oracle C06: every delivered or queued chunk carries records of one key tuple only and the tag the template gives for that tuple (independent expander); queue directories and key tuples are in bijection judged from chunk contents; every queue file found at the last start is transmitted again during the healthy phase without new traffic for its key set. Non-trivial: at least one fault fired and oracle obligations were evaluated; distinct = (scenario hash, context-switch hash).",
		Real: []string{"the whole agent as run.Run assembles it: run.Loader/Reloader, sysloginput, tcplistener, syslogparser, transforms, byKeySet orchestrator, pipelines, fluentdforward serializer/chunk maker/client, baseoutput, hybridbuffer, util/files.go, metrics", "gotils channels, promext", "fluentlib forwardprotocol + msgpack (decoding on the fake server side)"},
		Stub: []string{"TCP both ways (simnet)", "disk (simfs)", "signals (simsignal)", "syslog clients", "fake Fluentd Forward server scripted per connection attempt", "driver (graceful stop + restart, SIGHUP with rewritten config file, SIGUSR1)", "sync.Pool (simsync.Pool)"},
		Assumption: []string{
			"the reference for what a record should look like upstream is the real parse/transform/serialize code run on a fresh single-record pipeline outside the concurrent system (differential oracle)",
			"limits are scaled down with the shipped relations (message 1 KiB, record = message + 256, line buffer = 4 x record); computation takes zero simulated time",
			"TLS and the shared-secret handshake are off; the Datadog output is not part of this world",
		},
	}
	plans["C07"] = plan{
		Level: "exploration",
		Parts: []part{{"A", "c07", 2800, 6, 200}, {"A", "c07big", 48, 1, 48}},
		Rule: "world A: each run = one seeded scenario (1-4 syslog clients with bursts, pauses around the flush interval and records split across writes; 1-5 key tuples; knobs for batch size, memory window, chunk limits, message mode, timeouts; a script of upstream behaviour per connection attempt: refuse / connect timeout / reset after k messages / reset mid-stream / never ACK / late ACK / ACK of unknown id / accept but never read / close; graceful stop+restart generations on the same queue directory; SIGUSR1; a fault-free tail) executed under one seeded goroutine schedule. " +
			"Profile c07 interleaves well-formed sentinel records with hostile material produced by grammar mutation (PRI variants, NIL/truncated/oversize timestamps, missing tokens, one-byte tokens, fields and lines beyond every limit, invalid UTF-8 and NUL in header fields, bare newlines, binary, records cut off without newline), then opens a clean connection; c07big repeats it at the shipped 1 MiB limits. Oracle C07: no panic or fatal exit in any goroutine; sentinels that are records of their own per the reference framer are delivered and equal the reference (with the lines the framer attaches by design); the clean connection's records are delivered within the bound. Non-trivial: at least one fault fired and oracle obligations were evaluated; distinct = (scenario hash, context-switch hash).",
		Real: []string{"the whole agent as run.Run assembles it: run.Loader/Reloader, sysloginput, tcplistener, syslogparser, transforms, byKeySet orchestrator, pipelines, fluentdforward serializer/chunk maker/client, baseoutput, hybridbuffer, util/files.go, metrics", "gotils channels, promext", "fluentlib forwardprotocol + msgpack (decoding on the fake server side)"},
		Stub: []string{"TCP both ways (simnet)", "disk (simfs)", "signals (simsignal)", "syslog clients", "fake Fluentd Forward server scripted per connection attempt", "driver (graceful stop + restart, SIGHUP with rewritten config file, SIGUSR1)", "sync.Pool (simsync.Pool)"},
		Assumption: []string{
			"the reference for what a record should look like upstream is the real parse/transform/serialize code run on a fresh single-record pipeline outside the concurrent system (differential oracle)",
			"limits are scaled down with the shipped relations (message 1 KiB, record = message + 256, line buffer = 4 x record); computation takes zero simulated time",
			"TLS and the shared-secret handshake are off; the Datadog output is not part of this world",
		},
	}
	plans["C11"] = plan{
		Level: "exploration",
		Parts: []part{{"A", "c11", 3200, 4, 200}, {"A", "c11big", 96, 1, 16}, {"A", "c11dd", 120, 1, 20}},
		Rule: "world A: each run = one seeded scenario (1-4 syslog clients with bursts, pauses around the flush interval and records split across writes; 1-5 key tuples; knobs for batch size, memory window, chunk limits, message mode, timeouts; a script of upstream behaviour per connection attempt: refuse / connect timeout / reset after k messages / reset mid-stream / never ACK / late ACK / ACK of unknown id / accept but never read / close; graceful stop+restart generations on the same queue directory; SIGUSR1; a fault-free tail) executed under one seeded goroutine schedule. " +
			"Profile c11 scales chunk limits down (200 B-64 KiB, 0-10 records), draws record sizes around them, all three Forward modes; profile c11big runs the shipped limits (7 MiB chunks, 1 MiB messages) with records of 150-650 KiB into one pipeline, so that single chunks grow past the 1 MiB initial capacity of the chunk and message buffers; profile c11dd adds a Datadog output/buffer pair next to the Forward one (its HTTP client is replaced by a consumer that never takes a chunk, so every chunk its chunk maker produces is spilled or saved to its queue root and read there): a third of these runs aim one burst at the 1000-record limit (999-1003 records), a third at the 5 MiB limit (sizes computed with the real serializer so that the burst as one JSON array is the limit -2..+3 bytes); Datadog chunks must be gzip JSON arrays without padding, within both limits unless a single record, every element byte-equal to its record serialized alone, every fully read record in exactly one chunk, per-connection order kept. Oracle C11 on every message the upstream received and every queue file of every stop: decodes completely, size option == number of events, compressed option fits the mode, tag == pipeline tag, file name == chunk id, a chunk id never names two different contents, no record in two different chunks, records of a connection in order inside and across chunks, size/record limits respected unless a single record, every read unfiltered record in some chunk. Non-trivial: at least one fault fired and oracle obligations were evaluated; distinct = (scenario hash, context-switch hash).",
		Real: []string{"the whole agent as run.Run assembles it: run.Loader/Reloader, sysloginput, tcplistener, syslogparser, transforms, byKeySet orchestrator, pipelines, fluentdforward serializer/chunk maker/client, baseoutput, hybridbuffer, util/files.go, metrics", "gotils channels, promext", "fluentlib forwardprotocol + msgpack (decoding on the fake server side)"},
		Stub: []string{"TCP both ways (simnet)", "disk (simfs)", "signals (simsignal)", "syslog clients", "fake Fluentd Forward server scripted per connection attempt", "driver (graceful stop + restart, SIGHUP with rewritten config file, SIGUSR1)", "sync.Pool (simsync.Pool)"},
		Assumption: []string{
			"the reference for what a record should look like upstream is the real parse/transform/serialize code run on a fresh single-record pipeline outside the concurrent system (differential oracle)",
			"limits are scaled down with the shipped relations (message 1 KiB, record = message + 256, line buffer = 4 x record); computation takes zero simulated time",
			"TLS and the shared-secret handshake are off; the Datadog output is not part of this world",
		},
	}
	plans["C12"] = plan{
		Level: "exploration",
		Parts: []part{{"A", "c12", 3200, 1, 200}},
		Rule: "world A: each run = one seeded scenario (1-4 syslog clients with bursts, pauses around the flush interval and records split across writes; 1-5 key tuples; knobs for batch size, memory window, chunk limits, message mode, timeouts; a script of upstream behaviour per connection attempt: refuse / connect timeout / reset after k messages / reset mid-stream / never ACK / late ACK / ACK of unknown id / accept but never read / close; graceful stop+restart generations on the same queue directory; SIGUSR1; a fault-free tail) executed under one seeded goroutine schedule. " +
			"Profile c12 pools every record (pool threshold 32 B), lets the decision stream drive sync.Pool (newest / random / fresh object), mixes short, long, multi-line, escaped and marker-dropped records on shared pipelines; pool thresholds inside the range of record lengths; the configuration has an unescape step, a multi-part addFields in the input extractions, a conditional if/addFields writing a late field, and in half of the runs a second output/buffer pair (reference count 2) with its own always-healthy upstream; in half of the runs released backing buffers are overwritten with 0xEE. Oracle C12: every delivered event on either output, first delivery and duplicates, equals the event of its own record on a fresh single-record pipeline for that output (multi-line records: of a prefix of their lines when a flush split them); no filtered record delivered; no event without a sent record; the metrics can be gathered. Non-trivial: at least one fault fired and oracle obligations were evaluated; distinct = (scenario hash, context-switch hash).",
		Real: []string{"the whole agent as run.Run assembles it: run.Loader/Reloader, sysloginput, tcplistener, syslogparser, transforms, byKeySet orchestrator, pipelines, fluentdforward serializer/chunk maker/client, baseoutput, hybridbuffer, util/files.go, metrics", "gotils channels, promext", "fluentlib forwardprotocol + msgpack (decoding on the fake server side)"},
		Stub: []string{"TCP both ways (simnet)", "disk (simfs)", "signals (simsignal)", "syslog clients", "fake Fluentd Forward server scripted per connection attempt", "driver (graceful stop + restart, SIGHUP with rewritten config file, SIGUSR1)", "sync.Pool (simsync.Pool)"},
		Assumption: []string{
			"the reference for what a record should look like upstream is the real parse/transform/serialize code run on a fresh single-record pipeline outside the concurrent system (differential oracle)",
			"limits are scaled down with the shipped relations (message 1 KiB, record = message + 256, line buffer = 4 x record); computation takes zero simulated time",
			"TLS and the shared-secret handshake are off; the Datadog output is not part of this world",
		},
	}
	plans["C18"] = plan{
		Level: "exploration",
		Parts: []part{{"A", "c18", 2800, 3, 200}, {"B", "stop", 30000, 1, 0}},
		Rule: "world A: each run = one seeded scenario (1-4 syslog clients with bursts, pauses around the flush interval and records split across writes; 1-5 key tuples; knobs for batch size, memory window, chunk limits, message mode, timeouts; a script of upstream behaviour per connection attempt: refuse / connect timeout / reset after k messages / reset mid-stream / never ACK / late ACK / ACK of unknown id / accept but never read / close; graceful stop+restart generations on the same queue directory; SIGUSR1; a fault-free tail) executed under one seeded goroutine schedule. " +
			"Profile c18 stops the agent 2-4 times per run at seeded moments while the upstream refuses, resets, never ACKs, never reads or is late, with loads from idle to a full memory window. Oracle C18: every stop returns within 2*ICT + (BufferShutDownTimeout + 2*ICT) computed from the timeout values this run configured; no 'BUG: could not stop' line; after the last stop every read record is acknowledged, on disk or counted dropped; half of the clients never close their connection (the listener has to); a stop that has not returned after three times the bound ends the run as stop-never-returned. World B's stop profile adds the client-level bound (L2). Non-trivial: at least one fault fired and oracle obligations were evaluated; distinct = (scenario hash, context-switch hash).",
		Real: []string{"the whole agent as run.Run assembles it: run.Loader/Reloader, sysloginput, tcplistener, syslogparser, transforms, byKeySet orchestrator, pipelines, fluentdforward serializer/chunk maker/client, baseoutput, hybridbuffer, util/files.go, metrics", "gotils channels, promext", "fluentlib forwardprotocol + msgpack (decoding on the fake server side)"},
		Stub: []string{"TCP both ways (simnet)", "disk (simfs)", "signals (simsignal)", "syslog clients", "fake Fluentd Forward server scripted per connection attempt", "driver (graceful stop + restart, SIGHUP with rewritten config file, SIGUSR1)", "sync.Pool (simsync.Pool)"},
		Assumption: []string{
			"the reference for what a record should look like upstream is the real parse/transform/serialize code run on a fresh single-record pipeline outside the concurrent system (differential oracle)",
			"limits are scaled down with the shipped relations (message 1 KiB, record = message + 256, line buffer = 4 x record); computation takes zero simulated time",
			"TLS and the shared-secret handshake are off; the Datadog output is not part of this world",
		},
	}
	plans["C19"] = plan{
		Level: "exploration",
		Parts: []part{{"A", "c19", 3200, 1, 200}},
		Rule: "world A: each run = one seeded scenario (1-4 syslog clients with bursts, pauses around the flush interval and records split across writes; 1-5 key tuples; knobs for batch size, memory window, chunk limits, message mode, timeouts; a script of upstream behaviour per connection attempt: refuse / connect timeout / reset after k messages / reset mid-stream / never ACK / late ACK / ACK of unknown id / accept but never read / close; graceful stop+restart generations on the same queue directory; SIGUSR1; a fault-free tail) executed under one seeded goroutine schedule. " +
			"Oracle C19 after every stop, from the loader's metric querier against harness-observed events: input passed+dropped == messages framed from what the agent read; pipeline passed+dropped == input passed; labelled{marker} == pipeline dropped == records read with the marker; buffer input == chunks created + chunk files recovered == consumed + leftover + dropped + pending; chunk files on disk == input - consumed (no drop); output acknowledged == buffer consumed <= ACKs the upstream wrote; attempts >= forwarded >= acknowledged; E5 per key-label tuple, pipeline passed+dropped == fully read records with exactly those key values, nothing counted under a tuple no record has; E6 the same for labelled{marker}; half of the runs configure two metric keys with value pairs whose concatenations coincide (h+1s, h1+s); gathering the metrics must not fail. Non-trivial: at least one fault fired and oracle obligations were evaluated; distinct = (scenario hash, context-switch hash).",
		Real: []string{"the whole agent as run.Run assembles it: run.Loader/Reloader, sysloginput, tcplistener, syslogparser, transforms, byKeySet orchestrator, pipelines, fluentdforward serializer/chunk maker/client, baseoutput, hybridbuffer, util/files.go, metrics", "gotils channels, promext", "fluentlib forwardprotocol + msgpack (decoding on the fake server side)"},
		Stub: []string{"TCP both ways (simnet)", "disk (simfs)", "signals (simsignal)", "syslog clients", "fake Fluentd Forward server scripted per connection attempt", "driver (graceful stop + restart, SIGHUP with rewritten config file, SIGUSR1)", "sync.Pool (simsync.Pool)"},
		Assumption: []string{
			"the reference for what a record should look like upstream is the real parse/transform/serialize code run on a fresh single-record pipeline outside the concurrent system (differential oracle)",
			"limits are scaled down with the shipped relations (message 1 KiB, record = message + 256, line buffer = 4 x record); computation takes zero simulated time",
			"TLS and the shared-secret handshake are off; the Datadog output is not part of this world",
		},
	}
}
