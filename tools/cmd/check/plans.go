package main

func init() {
	plans["C02"] = plan{
		Level: "exploration",
		Parts: []part{{"B", "mixed", 110000, 4, 0}, {"B", "stop", 40000, 2, 0}, {"B", "nofault", 6000, 1, 0}},
		Rule: "each run = one seeded scenario (chunk feed schedule, per-connection-attempt script of connect/send/ping/ACK outcomes, knob values, " +
			"stop and SIGUSR1 times) executed under one seeded goroutine schedule; the history of send-complete / ACK-returned / consumed / " +
			"handed-back / finished events is checked against the reference model (S1 consumed only after complete send + designating ACK on the same " +
			"connection, S2 exactly-once resolution, S3 hand-back only after stop, S4 oldest-first retransmission, L1 bounded liveness after faults stop, " +
			"L2 bounded stop). A run is non-trivial when at least one scripted fault fired and at least one oracle obligation was evaluated; distinct = " +
			"distinct (scenario hash, context-switch-sequence hash) pairs.",
		Real: []string{"output/baseoutput (ClientWorker, clientSession, acknowledger, metrics)", "gotils channels (Awaitable)", "util.RunOnce, util.CollectFromChannel"},
		Stub: []string{"ClosableClientConnection (scripted Fluentd-style and Datadog-style families)", "chunk source modelled on hybridbuffer's outputFeeder", "recording consumed/leftover/finished callbacks"},
		Assumption: []string{
			"the scripted connection honours the ClosableClientConnection contract: after Close every pending and later call fails promptly (Fluentd family); the Datadog family has a no-op Close and calls bounded by the HTTP timeout, as output/datadog does",
			"schedules are explored at the granularity of the instrumented yield points (channel operations, selects, atomics, locks, goroutine starts, seam calls)",
			"computation takes zero simulated time; slowness exists only as scripted delays",
		},
	}
	plans["C03"] = plan{
		Level: "exploration",
		Parts: []part{{"C", "normal", 12000, 2, 0}, {"C", "limits", 24000, 3, 0}},
		Rule: "each run = one seeded scenario (1-4 generations on one queue directory; per generation a sequence of Accept calls with boundary-biased sizes, " +
			"a consumer script confirm/hold/stall/never-start/stop-early, Destroy at an arbitrary point; memory window, queue capacity and byte quota drawn per run; " +
			"optionally an unusable queue directory) executed under one seeded goroutine schedule on the simulated disk. Oracle: conservation (confirmed => file gone; " +
			"else identical file, else counted dropped; lost <= dropped_chunks_total), at-most-once confirmation across generations, FIFO delivery with recovered chunks first, " +
			"byte equality, Accept takes zero simulated time, memory window bound on feeder-fair schedules, byte quota, Destroy within its own timeout. Non-trivial: a limit, " +
			"stall or directory fault fired and obligations were evaluated; distinct = (scenario hash, context-switch hash).",
		Real: []string{"buffer/hybridbuffer (bufferer, outputFeeder, chunkManager, chunkOperator, queuedirs)", "util/files.go", "gotils channels, promext gauges"},
		Stub: []string{"disk (simfs in-memory tree behind os/unix/xattr façades)", "chunk producer", "scripted consumer"},
		Assumption: []string{
			"API contract of orchestrate/obase/pipelines.go: no Accept concurrent with or after Destroy",
			"the memory bound is evaluated only when the feeder is allowed to reach its blocking point between two Accepts (the spill decision looks at the window length)",
			"crash model = process kill; no power loss (the code never fsyncs and the property does not claim it)",
		},
	}
	plans["C04"] = plan{
		Level: "fault_enumeration",
		Parts: []part{{"C", "disk", 30000, 2, 0}, {"C", "enum", 320, 3, 0}},
		Rule: "world C with disk faults. Profile disk: 1-3 seeded faults per run (short write with nil error, error after k bytes, ENOSPC/EIO/EDQUOT at create/write/close/unlink/read, " +
			"kill at an operation or after k bytes of a write, unreadable file), then restarts and a final healthy generation. Profile enum: for each seeded base scenario the " +
			"fault-free run records the file-system trace; the scenario is then re-run once per fault point: every create/write/close of every chunk file x {kill, error} and for " +
			"write every byte offset k in {0,1,n/2,n-1,n} plus random ones as short write, error after k bytes and kill after k bytes. Oracle: every chunk any consumer ever receives is " +
			"byte-identical to what was produced; an intact readable file is delivered by the final healthy generation whatever damaged files sit beside it. Non-trivial: a disk fault fired.",
		Real: []string{"buffer/hybridbuffer", "util/files.go (WriteFileAt/ReadFileAt/UnlinkFileAt/StatFileAt)"},
		Stub: []string{"disk (simfs) with per-operation fault hook and process-kill model", "producer", "scripted consumer"},
		Assumption: []string{
			"crash model = process kill: every completed write(2) survives, the write in progress stops after k bytes, nothing else is lost; power loss is out of scope",
			"a short write returns n < len with nil error, as write(2) does when the disk fills or a file-size limit is hit mid-call",
		},
	}
	plans["C08"] = plan{
		Level: "exploration",
		Parts: []part{{"E", "mixed", 40000, 3, 0}, {"E", "single", 15000, 1, 0}, {"E", "sweep", 48, 3, 0}},
		Rule: "each run = 1-2 client connections, each a newline-terminated stream of single- and multi-line records with interspersed garbage lines, cut into read " +
			"fragments (segment-preserving simulated TCP: one client write = one agent read) with pauses drawn around the flush interval (0, just below, equal, just above, multiples), " +
			"under one seeded goroutine schedule; profile sweep additionally runs ALL 1-cut and 2-cut splits of each short base stream. Oracle: emitted messages vs an independent " +
			"line-based reference framer: heads exactly once and in order, each record = head + prefix of its continuation lines, full equality when the stream arrives within " +
			"less than the flush interval and for single-line streams under any timing; messages failing the start test may only consist of unused non-start lines. " +
			"Non-trivial: fragmentation or a pause >= half the flush interval occurred.",
		Real: []string{"input/tcplistener (listener, runConnection, multiLineReader)", "util.NetConnWrapper", "syslogprotocol.TestRecordStart", "gotils channels"},
		Stub: []string{"TCP (simnet)", "clients", "recording MultiSinkMessageReceiver"},
		Assumption: []string{
			"record and line-buffer limits are scaled down consistently (record limit 512 B, line buffer 4x) and records stay below them",
			"streams are newline-terminated (the property's quantifier); a partial last line is covered by C01/C07's partial-tail rule",
		},
	}
	plans["C17"] = plan{
		Level: "exploration",
		Parts: []part{{"D", "api2", 12000, 2, 250}, {"D", "api", 12000, 2, 250}, {"D", "composed", 8000, 3, 250}},
		Rule: "world D: the real ReloadableOrchestrator with recording downstream orchestrators; 1-2 SIGHUPs (accepted or rejected by the scripted initiateReload) delivered through " +
			"simsignal at arbitrary scheduling points while 2-6 connections register, use and close their sinks. Level api2 = the small case of the property (two connections, one " +
			"reload, all at one instant; the distinct-interleaving count is reported to show saturation); level api = more connections/reloads with unique client numbers; level composed = " +
			"real TCP listener + parsing receiver on simnet with the kernel's lowest-free descriptor rule, connections opening right when others close. Oracle: R1 no call reaches a sink " +
			"of a shut-down orchestrator, R2 every record reaches exactly one downstream sink, R3 a sink is used only by its own connection and never by two goroutines at once, " +
			"R4 sinks closed before shutdown and nothing leaked, R5 reload counters and orchestrator count match the scripted outcomes, R6 no panic. Non-trivial: a reload happened.",
		Real:       []string{"run/reloadable.go (ReloadableOrchestrator, ReloadableSink)", "composed level: input/tcplistener, bsupport.logParsingReceiver, syslogparser", "gotils channels"},
		Stub:       []string{"downstream orchestrators and sinks (recording)", "InitiateReloadingFunc (scripted)", "SIGHUP (simsignal)", "TCP + descriptor numbers (simnet)"},
		Assumption: []string{"the api levels respect the code's own assumption that client numbers are unique among open sinks; the composed level does not assume it"},
	}
}
