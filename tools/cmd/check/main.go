// check is the command behind every entry of /verif/MANIFEST.json.
//
//	check <ID> --tier quick|thorough   run the property's simulated worlds, write evidence/<ID>.json
//	check replay <file>                re-execute a replay file in a fresh process
//	check selftest                     determinism self-test (same seeds, several processes, GOMAXPROCS 1/4/16)
//	check build                        instrument + build only (used by setup_cmd)
//
// Exit 0: the property held on everything explored (KNOWN-FINDING lines allowed). Exit 1 plus
// "VIOLATION property=<id> replay=<path>": a replay-confirmed, minimised violation that is not a listed
// finding. Exit 2: build, harness or watchdog trouble (never a VIOLATION).
package main

import (
	"crypto/sha256"
	"encoding/hex"
	"encoding/json"
	"fmt"
	"io"
	"io/fs"
	"os"
	"os/exec"
	"path/filepath"
	"runtime"
	"sort"
	"strconv"
	"strings"
	"sync"
	"time"
)

var (
	verifDir = "/verif"
	repoDir  = "/repo"
)

type part struct {
	World, Profile string
	QuickRuns      int // total runs in the quick tier
	Weight         int // share of the thorough budget
	PerProc        int // base scenarios per worker process (0 = default); processes are recycled because goroutines of finished bubbles cannot be reclaimed
}

type plan struct {
	Parts      []part
	Level      string
	Rule       string
	Real       []string
	Stub       []string
	Assumption []string
}

var plans = map[string]plan{}

// tmpDirs are removed when the driver dies with an error (deferred removals do not run then)
var tmpDirs []string

func die(code int, format string, args ...any) {
	for _, d := range tmpDirs {
		_ = os.RemoveAll(d)
	}
	fmt.Fprintf(os.Stderr, "check: "+format+"\n", args...)
	os.Exit(code)
}

func goEnv() []string {
	env := os.Environ()
	return append(env, "GOFLAGS=-mod=mod", "GOPROXY=off", "GOSUMDB=off", "GOTOOLCHAIN=local")
}

func hashTree(h io.Writer, root string, keep func(rel string, d fs.DirEntry) bool) {
	var files []string
	_ = filepath.WalkDir(root, func(p string, d fs.DirEntry, err error) error {
		if err != nil {
			return nil
		}
		rel, _ := filepath.Rel(root, p)
		if d.IsDir() {
			if d.Name() == ".git" || d.Name() == ".bin" {
				return filepath.SkipDir
			}
			return nil
		}
		if keep(rel, d) {
			files = append(files, p)
		}
		return nil
	})
	sort.Strings(files)
	for _, f := range files {
		b, err := os.ReadFile(f)
		if err != nil {
			continue
		}
		fmt.Fprintf(h, "%s %d\n", f, len(b))
		h.Write(b)
	}
}

func buildKey() string {
	h := sha256.New()
	hashTree(h, repoDir, func(rel string, d fs.DirEntry) bool {
		return strings.HasSuffix(rel, ".go") || rel == "go.mod" || rel == "go.sum"
	})
	for _, sub := range []string{"sim", "harness", "tools"} {
		hashTree(h, filepath.Join(verifDir, sub), func(rel string, d fs.DirEntry) bool { return true })
	}
	b, _ := os.ReadFile(filepath.Join(verifDir, "mkscratch.sh"))
	h.Write(b)
	return hex.EncodeToString(h.Sum(nil))[:24]
}

const cacheRoot = "/tmp/verif-cache"

// build instruments the current /repo working tree and builds the harness binary; the result is cached by the
// content hash of /repo's Go sources and of the simulator, so an edited tree is always rebuilt
func build() string {
	key := buildKey()
	dir := filepath.Join(cacheRoot, key)
	bin := filepath.Join(dir, "harness.test")
	if st, err := os.Stat(bin); err == nil && st.Size() > 0 {
		return bin
	}
	_ = os.MkdirAll(cacheRoot, 0o755)
	scratch, err := os.MkdirTemp("/tmp", "verif-scratch-")
	if err != nil {
		die(2, "mktemp: %v", err)
	}
	tmpDirs = append(tmpDirs, scratch)
	defer os.RemoveAll(scratch)
	start := time.Now()
	cmd := exec.Command(filepath.Join(verifDir, "mkscratch.sh"), scratch)
	cmd.Env = append(goEnv(), "VERIF_REPO="+repoDir)
	if out, err := cmd.CombinedOutput(); err != nil {
		die(2, "instrumentation failed: %v\n%s", err, out)
	}
	cmd = exec.Command("bash", "-c", "cp ../repo/go.sum . && go1.26.8 test -c -tags verif -trimpath -o ../harness.test .")
	cmd.Dir = filepath.Join(scratch, "harness")
	cmd.Env = goEnv()
	if out, err := cmd.CombinedOutput(); err != nil {
		die(2, "harness build failed: %v\n%s", err, out)
	}
	_ = os.MkdirAll(dir, 0o755)
	tmp := bin + fmt.Sprintf(".tmp%d", os.Getpid())
	if err := copyFile(filepath.Join(scratch, "harness.test"), tmp); err != nil {
		die(2, "copy: %v", err)
	}
	if err := os.Rename(tmp, bin); err != nil {
		die(2, "rename: %v", err)
	}
	fmt.Fprintf(os.Stderr, "check: built harness for tree %s in %.1fs\n", key, time.Since(start).Seconds())
	pruneCache(key)
	return bin
}

// pinBinary links (or copies) the cached binary into the run's own work dir: a concurrent check of another tree may prune the cache
func pinBinary(bin, work string) string {
	dst := filepath.Join(work, "harness.test")
	if err := os.Link(bin, dst); err != nil {
		if err := copyFile(bin, dst); err != nil {
			die(2, "cannot pin harness binary: %v", err)
		}
		_ = os.Chmod(dst, 0o755)
	}
	return dst
}

func pruneCache(keep string) {
	ents, _ := os.ReadDir(cacheRoot)
	type e struct {
		name string
		t    time.Time
	}
	var es []e
	for _, d := range ents {
		if d.Name() == keep {
			continue
		}
		if info, err := d.Info(); err == nil {
			es = append(es, e{d.Name(), info.ModTime()})
		}
	}
	sort.Slice(es, func(i, j int) bool { return es[i].t.After(es[j].t) })
	for i, x := range es {
		if i >= 2 {
			os.RemoveAll(filepath.Join(cacheRoot, x.name))
		}
	}
}

func copyFile(src, dst string) error {
	in, err := os.Open(src)
	if err != nil {
		return err
	}
	defer in.Close()
	out, err := os.OpenFile(dst, os.O_CREATE|os.O_WRONLY|os.O_TRUNC, 0o755)
	if err != nil {
		return err
	}
	if _, err := io.Copy(out, in); err != nil {
		out.Close()
		return err
	}
	return out.Close()
}

type violation struct {
	Property  string `json:"property"`
	Rule      string `json:"rule"`
	Signature string `json:"signature"`
	Detail    string `json:"detail"`
	RunIndex  int    `json:"run_index"`
	Seed      uint64 `json:"seed"`
	Replay    string `json:"replay"`
	Count     int    `json:"count"`
}

type summary struct {
	World       string            `json:"world"`
	Profile     string            `json:"profile"`
	Runs        int               `json:"runs"`
	Steps       int64             `json:"steps"`
	Switches    int64             `json:"switches"`
	SimSeconds  float64           `json:"sim_seconds"`
	WallSeconds float64           `json:"wall_seconds"`
	Faults      map[string]int    `json:"faults"`
	Probes      map[string]int    `json:"probes"`
	Obligations int64             `json:"obligations"`
	Interleave  []uint64          `json:"interleavings"`
	Nontrivial  []uint64          `json:"nontrivial"`
	Violations  []violation       `json:"violations"`
	Samples     []json.RawMessage `json:"samples"`
	Harness     string            `json:"harness_error"`
	CapHits     map[string]int    `json:"cap_hits"`
	Seeds       []uint64          `json:"seeds_sample"`
	RunHashes   []uint64          `json:"run_hashes"`
}

type finding struct {
	Status    string `json:"status"` // known | fixed
	Property  string `json:"property"`
	Rule      string `json:"rule"`
	Signature string `json:"signature"`
	What      string `json:"what"`
	Commit    string `json:"commit,omitempty"`
}

func loadFindings() []finding {
	b, err := os.ReadFile(filepath.Join(verifDir, "known_findings.json"))
	if err != nil {
		return nil
	}
	var f struct {
		Findings []finding `json:"findings"`
	}
	if err := json.Unmarshal(b, &f); err != nil {
		die(2, "known_findings.json: %v", err)
	}
	return f.Findings
}

func runWorker(bin string, env []string, outFile string, timeout time.Duration) (string, error) {
	cmd := exec.Command(bin, "-test.run", "^TestSim$", "-test.timeout", "0", "-test.count", "1")
	cmd.Env = append(os.Environ(), env...)
	if outFile != "" {
		cmd.Env = append(cmd.Env, "VERIF_OUT="+outFile, "TMPDIR="+filepath.Dir(outFile)) // whatever a killed worker leaves behind goes with the work dir
	}
	var buf strings.Builder
	cmd.Stdout = &buf
	cmd.Stderr = &buf
	if err := cmd.Start(); err != nil {
		return "", err
	}
	done := make(chan error, 1)
	go func() { done <- cmd.Wait() }()
	select {
	case err := <-done:
		return buf.String(), err
	case <-time.After(timeout):
		_ = cmd.Process.Kill()
		return buf.String(), fmt.Errorf("worker exceeded %v", timeout)
	}
}

func nworkers() int {
	n := runtime.NumCPU()
	if n > 16 {
		n = 16
	}
	if v := os.Getenv("VERIF_WORKERS"); v != "" {
		if k, err := strconv.Atoi(v); err == nil && k > 0 {
			n = k
		}
	}
	return n
}

func main() {
	if len(os.Args) < 2 {
		die(2, "usage: check <ID> --tier quick|thorough | replay <file> | selftest | build")
	}
	if v := os.Getenv("VERIF_DIR"); v != "" {
		verifDir = v
	}
	if v := os.Getenv("VERIF_REPO"); v != "" {
		repoDir = v
	}
	switch os.Args[1] {
	case "build":
		fmt.Println(build())
		return
	case "simtest":
		// unit tests of the trusted base: scheduler, seams for sync, network and disk
		cmd := exec.Command("go1.26.8", "test", "-count=1", "./...")
		cmd.Dir = filepath.Join(verifDir, "sim")
		cmd.Env = goEnv()
		out, err := cmd.CombinedOutput()
		fmt.Print(string(out))
		if err != nil {
			os.Exit(2)
		}
		return
	case "replay":
		if len(os.Args) < 3 {
			die(2, "usage: check replay <file>")
		}
		bin := build()
		out, err := runWorker(bin, []string{"VERIF_REPLAY=" + os.Args[2], "VERIF_REPLAY_VERBOSE=" + os.Getenv("VERIF_REPLAY_VERBOSE")}, "", 10*time.Minute)
		fmt.Print(out)
		if err != nil {
			die(2, "replay process failed: %v", err)
		}
		if strings.Contains(out, "REPLAY-RESULT reproduced") {
			b, _ := os.ReadFile(os.Args[2])
			var rp struct {
				Property string `json:"property"`
			}
			_ = json.Unmarshal(b, &rp)
			fmt.Printf("VIOLATION property=%s replay=%s\n", rp.Property, os.Args[2])
			os.Exit(1)
		}
		os.Exit(0)
	case "selftest":
		os.Exit(selftest(os.Args[2:]))
	case "mutants":
		os.Exit(mutants(os.Args[2:]))
	}
	id := os.Args[1]
	tier := os.Getenv("VERIF_TIER")
	for i := 2; i < len(os.Args); i++ {
		if os.Args[i] == "--tier" && i+1 < len(os.Args) {
			tier = os.Args[i+1]
		}
	}
	if tier == "" {
		tier = "quick"
	}
	pl, ok := plans[id]
	if !ok {
		die(2, "no check registered for %s", id)
	}
	os.Exit(runCheck(id, tier, pl))
}

func seedBase() uint64 {
	if v := os.Getenv("VERIF_SEED"); v != "" {
		if n, err := strconv.ParseUint(v, 10, 64); err == nil {
			return n
		}
		if n, err := strconv.ParseInt(v, 10, 64); err == nil {
			return uint64(n)
		}
	}
	return 20260926
}

func runCheck(id, tier string, pl plan) int {
	start := time.Now()
	bin := build()
	buildS := time.Since(start).Seconds()
	seed := seedBase()
	W := nworkers()
	replayDir := filepath.Join(verifDir, "replays")
	if v := os.Getenv("VERIF_REPLAYS_DIR"); v != "" {
		replayDir = v
	}
	_ = os.MkdirAll(replayDir, 0o755)
	work, err := os.MkdirTemp("/tmp", "verif-run-")
	if err != nil {
		die(2, "mktemp: %v", err)
	}
	tmpDirs = append(tmpDirs, work)
	defer os.RemoveAll(work)
	bin = pinBinary(bin, work)

	budget := 0
	if tier == "thorough" {
		budget = 900
		if v := os.Getenv("VERIF_BUDGET_S"); v != "" {
			if n, err := strconv.Atoi(v); err == nil {
				budget = n
			}
		}
	}
	var knownClasses []string
	for _, f := range loadFindings() {
		if f.Status == "known" && f.Property == id {
			knownClasses = append(knownClasses, f.Property+"/"+f.Rule+"/"+f.Signature)
		}
	}
	totalW := 0
	for _, p := range pl.Parts {
		totalW += p.Weight
	}
	var sums []summary
	var harnessErr []string
	var mu sync.Mutex
	for pi, p := range pl.Parts {
		if only := os.Getenv("VERIF_ONLY_PROFILE"); only != "" && p.Profile != only {
			continue // (development aid: which part of a plan catches a given change)
		}
		var wg sync.WaitGroup
		partBudget := 0
		if budget > 0 {
			partBudget = budget * p.Weight / totalW
			if partBudget < 5 {
				partBudget = 5
			}
		}
		total := p.QuickRuns
		if v := os.Getenv("VERIF_QUICK_PERCENT"); v != "" && partBudget == 0 {
			if pc, err := strconv.Atoi(v); err == nil && pc > 0 {
				total = max(W, total*pc/100)
			}
		}
		chunk := p.PerProc
		if chunk <= 0 {
			chunk = 4000
		}
		if partBudget == 0 && total/W+1 < chunk {
			chunk = total/W + 1
		}
		partStart := time.Now()
		var next int // next chunk number, guarded by mu
		for w := 0; w < W; w++ {
			wg.Add(1)
			go func(w int) {
				defer wg.Done()
				for {
					mu.Lock()
					j := next
					next++
					failed := len(harnessErr) > 0
					mu.Unlock()
					from, to := j*chunk, (j+1)*chunk
					if failed {
						return
					}
					env := []string{
						"VERIF_WORLD=" + p.World, "VERIF_PROFILE=" + p.Profile, "VERIF_PROPERTY=" + id, "VERIF_TIER=" + tier,
						fmt.Sprintf("VERIF_SEED=%d", seed+uint64(pi)*1000003), fmt.Sprintf("VERIF_FROM=%d", from), "VERIF_STRIDE=1",
						"VERIF_REPLAY_DIR=" + replayDir, "VERIF_KNOWN=" + strings.Join(knownClasses, ";"),
					}
					timeout := 20 * time.Minute
					if partBudget > 0 {
						left := partBudget - int(time.Since(partStart).Seconds())
						if left <= 0 {
							return
						}
						env = append(env, fmt.Sprintf("VERIF_TO=%d", to), fmt.Sprintf("VERIF_WORKER_BUDGET_S=%d", left))
						timeout = time.Duration(left)*time.Second + 10*time.Minute
					} else {
						if from >= total {
							return
						}
						env = append(env, fmt.Sprintf("VERIF_TO=%d", min(to, total)))
					}
					outFile := filepath.Join(work, fmt.Sprintf("sum-%d-%d.json", pi, j))
					out, err := runWorker(bin, env, outFile, timeout)
					mu.Lock()
					if err != nil {
						harnessErr = append(harnessErr, fmt.Sprintf("worker %s/%s chunk %d: %v\n%s", p.World, p.Profile, j, err, headTail(out, 4000)))
						mu.Unlock()
						return
					}
					b, rerr := os.ReadFile(outFile)
					if rerr != nil {
						harnessErr = append(harnessErr, fmt.Sprintf("worker %s/%s chunk %d wrote no summary: %v\n%s", p.World, p.Profile, j, rerr, tailStr(out, 3000)))
						mu.Unlock()
						return
					}
					os.Remove(outFile)
					var s summary
					if jerr := json.Unmarshal(b, &s); jerr != nil {
						harnessErr = append(harnessErr, "bad summary: "+jerr.Error())
						mu.Unlock()
						return
					}
					if s.Harness != "" {
						harnessErr = append(harnessErr, s.Harness)
					}
					sums = append(sums, s)
					mu.Unlock()
				}
			}(w)
		}
		wg.Wait()
	}
	if len(harnessErr) > 0 {
		for _, e := range harnessErr {
			fmt.Fprintln(os.Stderr, "check: HARNESS-ERROR:", e)
		}
		return 2
	}

	// aggregate
	agg := summary{Faults: map[string]int{}, Probes: map[string]int{}, CapHits: map[string]int{}}
	inter := map[uint64]bool{}
	nontriv := map[uint64]bool{}
	perPart := map[string]int{}
	var viols []violation
	for _, s := range sums {
		agg.Runs += s.Runs
		agg.Steps += s.Steps
		agg.Switches += s.Switches
		agg.SimSeconds += s.SimSeconds
		agg.Obligations += s.Obligations
		perPart[s.World+"/"+s.Profile] += s.Runs
		for k, v := range s.Faults {
			agg.Faults[k] += v
		}
		for k, v := range s.Probes {
			agg.Probes[k] += v
		}
		for k, v := range s.CapHits {
			agg.CapHits[k] += v
		}
		for _, h := range s.Interleave {
			inter[h] = true
		}
		for _, h := range s.Nontrivial {
			nontriv[h] = true
		}
		if len(agg.Samples) < 3 {
			agg.Samples = append(agg.Samples, s.Samples...)
		}
		viols = append(viols, s.Violations...)
	}
	sort.Slice(viols, func(i, j int) bool {
		if viols[i].Rule != viols[j].Rule {
			return viols[i].Rule < viols[j].Rule
		}
		return viols[i].RunIndex < viols[j].RunIndex
	})

	// classify violations: listed finding, or new (must replay in a fresh process)
	findings := loadFindings()
	exit := 0
	knownPrinted := map[string]bool{}
	newSeen := map[string]bool{}
	nNew := 0
	var knownHit []string
	for _, v := range viols {
		class := v.Property + "/" + v.Rule + "/" + v.Signature
		matched := false
		for _, f := range findings {
			if f.Status == "known" && f.Property == v.Property && f.Rule == v.Rule && f.Signature == v.Signature {
				matched = true
				if !knownPrinted[class] {
					knownPrinted[class] = true
					fmt.Printf("KNOWN-FINDING: property=%s %s [rule=%s signature=%s occurrences>=%d]\n", v.Property, f.What, v.Rule, v.Signature, v.Count)
					knownHit = append(knownHit, class)
				}
			}
		}
		if matched {
			if v.Replay != "" {
				os.Remove(v.Replay)
			}
			continue
		}
		if newSeen[class] {
			if v.Replay != "" {
				os.Remove(v.Replay)
			}
			continue
		}
		newSeen[class] = true
		if v.Replay == "" {
			fmt.Fprintf(os.Stderr, "check: violation %s has no replay file (too many distinct classes in one worker): %s\n", class, v.Detail)
			continue
		}
		out, err := runWorker(bin, []string{"VERIF_REPLAY=" + v.Replay}, "", 10*time.Minute)
		if err != nil || !strings.Contains(out, "REPLAY-RESULT reproduced") {
			fmt.Fprintf(os.Stderr, "check: HARNESS-ERROR: violation %s did not reproduce from %s in a fresh process (%v)\n%s\n", class, v.Replay, err, tailStr(out, 4000))
			return 2
		}
		nNew++
		fmt.Printf("VIOLATION property=%s replay=%s\n", v.Property, v.Replay)
		fmt.Printf("  rule=%s signature=%s seed=%d run=%d: %s\n", v.Rule, v.Signature, v.Seed, v.RunIndex, firstLine(v.Detail))
		exit = 1
	}

	wall := time.Since(start).Seconds()
	// evidence
	faultKinds := make([]string, 0, len(agg.Faults))
	for k := range agg.Faults {
		faultKinds = append(faultKinds, k)
	}
	sort.Strings(faultKinds)
	var zeroProbes []string
	_ = zeroProbes
	samples := []any{}
	for _, s := range agg.Samples {
		var x any
		if json.Unmarshal(s, &x) == nil {
			samples = append(samples, x)
		}
		if len(samples) >= 3 {
			break
		}
	}
	if len(samples) == 0 {
		samples = append(samples, "no sample recorded")
	}
	runWall := wall - buildS
	if runWall <= 0 {
		runWall = 0.001
	}
	ev := map[string]any{
		"property_id": id,
		"tier":        tier,
		"seed":        seed,
		"level":       pl.Level,
		"wall_s":      wall,
		"violations":  nNew,
		"coverage": map[string]any{
			"evaluations":         agg.Runs,
			"distinct_nontrivial": len(nontriv),
			"rule":                pl.Rule,
			"samples":             samples,
			"simulated_runs":      agg.Runs,
			"distinct_seeds":      agg.Runs,
			"runs_per_hour":       int(float64(agg.Runs) / runWall * 3600),
			"simulated_seconds":   agg.SimSeconds,
			"scheduler_steps":     agg.Steps,
			"context_switches":    agg.Switches,
			"distinct_interleavings": map[string]any{
				"count":   len(inter),
				"measure": "distinct hashes of the per-run sequence of context switches (goroutine spawn site, yield site)",
			},
			"faults_fired":          agg.Faults,
			"probes_hit":            agg.Probes,
			"oracle_obligations":    agg.Obligations,
			"runs_per_world":        perPart,
			"cap_hits":              agg.CapHits,
			"components_real":       pl.Real,
			"components_stubbed":    pl.Stub,
			"known_findings_hit":    knownHit,
			"workers":               W,
			"build_seconds":         buildS,
			"exhaustive":            false,
			"violation_classes_new": nNew,
		},
		"assumptions": pl.Assumption,
	}
	b, _ := json.MarshalIndent(ev, "", " ")
	evDir := filepath.Join(verifDir, "evidence")
	if v := os.Getenv("VERIF_EVIDENCE_DIR"); v != "" {
		evDir = v
	}
	_ = os.MkdirAll(evDir, 0o755)
	if err := os.WriteFile(filepath.Join(evDir, id+".json"), b, 0o644); err != nil {
		die(2, "write evidence: %v", err)
	}
	if tier == "thorough" {
		// evidence/<id>.json is rewritten by every run; thorough runs are also kept per seed
		_ = os.MkdirAll(filepath.Join(evDir, "thorough"), 0o755)
		_ = os.WriteFile(filepath.Join(evDir, "thorough", fmt.Sprintf("%s.seed%d.json", id, seed)), b, 0o644)
	}
	fmt.Printf("check %s tier=%s seed=%d: runs=%d distinct_interleavings=%d nontrivial=%d sim_time=%.0fs steps=%d new_violations=%d known_findings=%d wall=%.1fs\n",
		id, tier, seed, agg.Runs, len(inter), len(nontriv), agg.SimSeconds, agg.Steps, nNew, len(knownHit), wall)
	return exit
}

func firstLine(s string) string {
	if i := strings.IndexByte(s, '\n'); i >= 0 {
		return s[:i]
	}
	return s
}

// headTail keeps the beginning (where a Go runtime failure names its cause) and the end of a long output
func headTail(s string, n int) string {
	if len(s) <= 2*n {
		return s
	}
	return s[:n] + "\n... [" + strconv.Itoa(len(s)-2*n) + " bytes omitted] ...\n" + s[len(s)-n:]
}

func tailStr(s string, n int) string {
	if len(s) > n {
		return "..." + s[len(s)-n:]
	}
	return s
}

// selftest: same seeds in several processes at GOMAXPROCS 1, 4 and 16 must give identical executions
func selftest(args []string) int {
	bin := build()
	work, _ := os.MkdirTemp("/tmp", "verif-selftest-")
	tmpDirs = append(tmpDirs, work)
	defer os.RemoveAll(work)
	bin = pinBinary(bin, work)
	type target struct {
		world, profile, prop string
		runs, perProc        int
	}
	var targets []target
	seen := map[string]bool{}
	ids := make([]string, 0, len(plans))
	for id := range plans {
		ids = append(ids, id)
	}
	sort.Strings(ids)
	for _, id := range ids {
		for _, p := range plans[id].Parts {
			k := p.World + "/" + p.Profile
			if only := os.Getenv("VERIF_ONLY_PROFILE"); only != "" && p.Profile != only {
				continue
			}
			if !seen[k] {
				seen[k] = true
				targets = append(targets, target{p.World, p.Profile, id, p.QuickRuns, p.PerProc})
			}
		}
	}
	runs := 300
	if len(args) > 0 {
		if n, err := strconv.Atoi(args[0]); err == nil {
			runs = n
		}
	}
	bad := 0
	for _, tg := range targets {
		runs := min(runs, tg.runs) // (the enumerating profiles have few, large base scenarios)
		chunk := 100               // runs per process: the goroutines of finished bubbles cannot be reclaimed
		if tg.perProc > 0 {
			chunk = min(chunk, tg.perProc)
		}
		type res struct {
			name string
			h    []uint64
			err  string
		}
		var mu sync.Mutex
		var rs []res
		var wg sync.WaitGroup
		for _, procs := range []int{1, 4, 16} {
			for rep := 0; rep < 4; rep++ {
				wg.Add(1)
				go func(procs, rep int) {
					defer wg.Done()
					r := res{name: fmt.Sprintf("GOMAXPROCS=%d#%d", procs, rep)}
					for from := 0; from < runs && r.err == ""; from += chunk {
						outFile := filepath.Join(work, fmt.Sprintf("st-%s-%s-%d-%d-%d.json", tg.world, tg.profile, procs, rep, from))
						env := []string{"VERIF_WORLD=" + tg.world, "VERIF_PROFILE=" + tg.profile, "VERIF_PROPERTY=" + tg.prop, "VERIF_TIER=quick",
							"VERIF_SEED=424242", fmt.Sprintf("VERIF_FROM=%d", from), fmt.Sprintf("VERIF_TO=%d", min(runs, from+chunk)), "VERIF_RUNHASH=1",
							"VERIF_REPLAY_DIR=" + work, fmt.Sprintf("GOMAXPROCS=%d", procs)}
						out, err := runWorker(bin, env, outFile, 20*time.Minute)
						if err != nil {
							r.err = err.Error() + "\n" + tailStr(out, 2000)
						} else {
							b, _ := os.ReadFile(outFile)
							var s summary
							_ = json.Unmarshal(b, &s)
							r.h = append(r.h, s.RunHashes...)
							if s.Harness != "" {
								r.err = s.Harness
							}
						}
					}
					mu.Lock()
					rs = append(rs, r)
					mu.Unlock()
				}(procs, rep)
			}
		}
		wg.Wait()
		sort.Slice(rs, func(i, j int) bool { return rs[i].name < rs[j].name })
		okAll := true
		for _, r := range rs {
			if r.err != "" {
				fmt.Printf("selftest %s/%s %s: ERROR %s\n", tg.world, tg.profile, r.name, r.err)
				okAll = false
				continue
			}
			if len(r.h) != len(rs[0].h) {
				okAll = false
				fmt.Printf("selftest %s/%s %s: %d runs vs %d\n", tg.world, tg.profile, r.name, len(r.h), len(rs[0].h))
				continue
			}
			for i := range r.h {
				if r.h[i] != rs[0].h[i] {
					okAll = false
					fmt.Printf("selftest %s/%s %s: run %d diverges from %s\n", tg.world, tg.profile, r.name, i, rs[0].name)
					break
				}
			}
		}
		if okAll {
			fmt.Printf("selftest %s/%s: %d runs x %d processes identical\n", tg.world, tg.profile, runs, len(rs))
		} else {
			bad++
		}
	}
	if bad > 0 {
		return 2
	}
	return 0
}

// mutants: sensitivity self-test. Every patch in mutants/<ID>-*.patch is applied to a scratch copy of /repo and
// the property's quick check must report a violation.
func mutants(args []string) int {
	pattern := "*"
	onlySeeded := len(args) > 0 && args[0] == "seeded"
	if len(args) > 0 && !onlySeeded {
		pattern = args[0] + "-*"
	}
	files, _ := filepath.Glob(filepath.Join(verifDir, "mutants", pattern+".patch"))
	sort.Strings(files)
	if onlySeeded {
		files = nil
	}
	// the changes seeded by independent sub-agents are kept as seeded/<ID>-<name>/patch.diff and re-run the same way
	seeded, _ := filepath.Glob(filepath.Join(verifDir, "seeded", pattern, "patch.diff"))
	sort.Strings(seeded)
	files = append(files, seeded...)
	self, _ := os.Executable()
	survived := 0
	type row struct{ name, result string }
	var rows []row
	for _, f := range files {
		name := strings.TrimSuffix(filepath.Base(f), ".patch")
		if filepath.Base(f) == "patch.diff" {
			name = filepath.Base(filepath.Dir(f))
		}
		id := name[:strings.IndexByte(name, '-')]
		via := ""
		if filepath.Base(f) == "patch.diff" {
			// a seeded change that its own property's check does not see (and need not: see its meta.json) names the check that does
			var meta struct {
				CheckedWith   string `json:"checked_with"`
				NotDetectable string `json:"not_detectable"`
			}
			if b, err := os.ReadFile(filepath.Join(filepath.Dir(f), "meta.json")); err == nil && json.Unmarshal(b, &meta) == nil && meta.CheckedWith != "" {
				id, via = meta.CheckedWith, " [by the "+meta.CheckedWith+" check]"
			}
			if meta.NotDetectable != "" {
				// a recorded limit of coverage: the change sits in code no world runs
				fmt.Printf("seeded %-40s NOT-DETECTABLE (%s)\n", name, meta.NotDetectable)
				rows = append(rows, row{name, "not-detectable"})
				continue
			}
		}
		scratch, _ := os.MkdirTemp("/tmp", "verif-mutant-")
		tmpDirs = append(tmpDirs, scratch)
		cmd := exec.Command("bash", "-c", fmt.Sprintf("rsync -a --exclude .git %s/ %s/repo/ && cd %s/repo && patch -s -p1 < %s", repoDir, scratch, scratch, f))
		if out, err := cmd.CombinedOutput(); err != nil {
			fmt.Printf("mutant %s: cannot apply: %v %s\n", name, err, out)
			rows = append(rows, row{name, "patch-failed"})
			os.RemoveAll(scratch)
			survived++
			continue
		}
		c := exec.Command(self, id, "--tier", "quick")
		c.Env = append(os.Environ(), "VERIF_REPO="+scratch+"/repo", "VERIF_EVIDENCE_DIR="+scratch+"/ev", "VERIF_REPLAYS_DIR="+scratch+"/rp",
			"VERIF_QUICK_PERCENT="+envOr("VERIF_MUTANT_PERCENT", "50"))
		out, err := c.CombinedOutput()
		code := 0
		if ee, ok := err.(*exec.ExitError); ok {
			code = ee.ExitCode()
		}
		res := "SURVIVED"
		switch {
		case code == 1 && strings.Contains(string(out), "VIOLATION property="):
			res = "killed"
			for _, ln := range strings.Split(string(out), "\n") {
				if strings.HasPrefix(ln, "  rule=") {
					res = "killed (" + strings.TrimSpace(firstN(ln, 90)) + ")"
					break
				}
			}
		case code == 2:
			res = "harness-error"
			fmt.Println(headTail(string(out), 3000))
			survived++
		default:
			survived++
		}
		kind := "mutant"
		if filepath.Base(f) == "patch.diff" {
			kind = "seeded"
		}
		fmt.Printf("%s %-40s %s%s\n", kind, name, res, via)
		rows = append(rows, row{name, res})
		os.RemoveAll(scratch)
	}
	b, _ := json.MarshalIndent(rows, "", " ")
	_ = b
	fmt.Printf("mutants: %d total, %d not killed\n", len(files), survived)
	if survived > 0 {
		return 1
	}
	return 0
}

func envOr(k, def string) string {
	if v := os.Getenv(k); v != "" {
		return v
	}
	return def
}

func firstN(s string, n int) string {
	if len(s) > n {
		return s[:n]
	}
	return s
}
