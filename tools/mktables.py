#!/usr/bin/env python3
"""Regenerates the sensitivity tables of DESIGN.md (between the SENSITIVITY markers) from seeded/*/meta.json and a
log of `./check mutants` (argument; kept as sensitivity/mutants.log)."""
import glob, json, os, re, sys
V = os.path.dirname(os.path.dirname(os.path.abspath(__file__)))
log = sys.argv[1] if len(sys.argv) > 1 else os.path.join(V, "sensitivity", "mutants.log")
rows = {}
for ln in open(log, errors="replace"):
    m = re.match(r"^(mutant|seeded) (\S+)\s+(.*)$", ln.rstrip())
    if m:
        rows[(m.group(1), m.group(2))] = m.group(3)
out = []
out.append("**Hand-written mutants** (`mutants/<ID>-<name>.patch`; result of `./check mutants`, quick tier at 50 % of its runs):\n")
out.append("| property | mutant | result | caught by rule |")
out.append("|---|---|---|---|")
nk = ns = 0
for (kind, name), res in sorted(rows.items()):
    if kind != "mutant":
        continue
    rule = ""
    m = re.search(r"rule=(\S+)", res)
    if m:
        rule = m.group(1)
    ok = res.startswith("killed")
    nk += ok
    ns += not ok
    out.append("| %s | %s | %s | %s |" % (name.split("-")[0], name.split("-", 1)[1], "killed" if ok else "**" + res.split()[0] + "**", rule))
out.append("\n%d mutants, %d killed, %d not killed.\n" % (nk + ns, nk, ns))
out.append("**Changes seeded by independent sub-agents** (`seeded/<name>/`: patch, the sub-agent's own failing demonstration, meta.json). Each sub-agent saw only the property text and a scratch worktree, never /verif. Every change compiles and passes the repository's tests; the demonstration fails with it and passes without it (re-confirmed by `keepseed.sh`).\n")
out.append("| property | seeded change | first verdict of the check as it was | after strengthening |")
out.append("|---|---|---|---|")
for d in sorted(glob.glob(os.path.join(V, "seeded", "C*", ""))):
    m = json.load(open(os.path.join(d, "meta.json")))
    name = os.path.basename(d.rstrip("/"))
    det = m.get("detected_by", "")
    missed = det.lower().startswith("missed") or det.lower().startswith("first missed") or "first only" in det
    now = rows.get(("seeded", name), "")
    nowtxt = ("re-run: " + ("killed" if now.startswith("killed") else now)) if now else ""
    out.append("| %s | %s: %s | %s | %s |" % (m.get("property"), name.split("-", 1)[1], m.get("change", "").replace("|", "/")[:220],
                                          "**missed / weak**" if missed else "caught", (det.replace("|", "/")[:300] + (" — " + nowtxt if nowtxt else ""))))
txt = "\n".join(out) + "\n"
p = os.path.join(V, "DESIGN.md")
s = open(p).read()
a, b = "<!-- BEGIN:SENSITIVITY -->", "<!-- END:SENSITIVITY -->"
assert a in s and b in s
s = s[: s.index(a) + len(a)] + "\n" + txt + s[s.index(b):]
open(p, "w").write(s)
print("tables written: %d mutants, %d seeded" % (nk + ns, len(glob.glob(os.path.join(V, 'seeded', 'C*', '')))))
