#!/bin/bash
# dev helper: refresh sim+harness in an existing scratch and rebuild the test binary
set -e
export GOFLAGS=-mod=mod GOPROXY=off GOSUMDB=off GOTOOLCHAIN=local
S=${1:-/tmp/vscratch1}
rm -rf $S/harness $S/sim; cp -r /verif/harness $S/harness; cp -r /verif/sim $S/sim
cd $S/harness && cp ../repo/go.sum . && go1.26.8 test -c -tags verif -trimpath -o ../harness.test .
